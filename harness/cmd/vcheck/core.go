package main

// Core of the harness: run context, seeded case runner, verdict bookkeeping,
// known-findings matching, evidence and replay files.

import (
	"encoding/json"
	"fmt"
	"hash/fnv"
	"math/rand"
	"os"
	"path/filepath"
	"runtime"
	"runtime/debug"
	"sort"
	"strconv"
	"strings"
	"sync"
	"time"
)

type Ctx struct {
	ID      string
	Tier    string
	Seed    int64
	Repo    string
	Verif   string
	Out     string
	Build   string
	Scratch string
	Level   string
	Rule    string

	replayCase string // when non-empty only this case name is run

	mu           sync.Mutex
	evaluations  int64
	distinct     map[uint64]struct{}
	counters     map[string]int64
	samples      []any
	extra        map[string]any
	assumptions  []string
	violations   int
	known        map[string]int
	inconclusive int
	harnessErrs  []string
	perClass     map[string]int
	findings     []finding
	start        time.Time
	violFiles    int

	distinctOverride int
}

type finding struct {
	Property string            `json:"property"`
	ID       string            `json:"id"`
	Status   string            `json:"status"`
	Class    string            `json:"class"`
	Match    map[string]string `json:"match"`
	What     string            `json:"what"`
	Commit   string            `json:"commit,omitempty"`
}

type Case struct {
	Ctx  *Ctx
	Name string
	R    *rand.Rand
}

func (c *Ctx) Quick() bool { return c.Tier != "thorough" }

// pick returns q in the quick tier and t in the thorough tier.
func (c *Ctx) pick(q, t int) int {
	if c.Quick() {
		return q
	}
	return t
}

func newCtx(id, tier string) *Ctx {
	seed := int64(1)
	if s := os.Getenv("VERIF_SEED"); s != "" {
		if v, err := strconv.ParseInt(s, 10, 64); err == nil {
			seed = v
		}
	}
	verif := os.Getenv("VERIF_DIR")
	if verif == "" {
		verif = "/verif"
	}
	repo := os.Getenv("VERIF_REPO")
	if repo == "" {
		repo = "/repo"
	}
	out := os.Getenv("VERIF_OUT")
	if out == "" {
		out = verif
	}
	build := os.Getenv("VERIF_BUILD")
	if build == "" {
		build = filepath.Join(verif, ".build")
	}
	c := &Ctx{ID: id, Tier: tier, Seed: seed, Repo: repo, Verif: verif, Out: out, Build: build,
		Level:    "exploration",
		distinct: map[uint64]struct{}{}, counters: map[string]int64{}, extra: map[string]any{},
		known: map[string]int{}, perClass: map[string]int{}, start: time.Now()}
	c.replayCase = os.Getenv("VERIF_CASE")
	c.loadFindings()
	tmp := os.Getenv("TMPDIR")
	if tmp == "" {
		tmp = "/tmp"
	}
	d, err := os.MkdirTemp(tmp, "verif-"+id+"-")
	if err != nil {
		fmt.Fprintln(os.Stderr, "cannot create scratch dir:", err)
		os.Exit(2)
	}
	c.Scratch = d
	return c
}

func (c *Ctx) loadFindings() {
	data, err := os.ReadFile(filepath.Join(c.Verif, "known-findings.json"))
	if err != nil {
		return
	}
	var f struct {
		Findings []finding `json:"findings"`
	}
	if err := json.Unmarshal(data, &f); err != nil {
		fmt.Fprintln(os.Stderr, "known-findings.json unreadable:", err)
		os.Exit(2)
	}
	c.findings = f.Findings
}

func caseSeed(seed int64, id, name string) int64 {
	h := fnv.New64a()
	fmt.Fprintf(h, "%d|%s|%s", seed, id, name)
	return int64(h.Sum64() & 0x7fffffffffffffff)
}

func (c *Ctx) newCase(name string) *Case {
	return &Case{Ctx: c, Name: name, R: rand.New(rand.NewSource(caseSeed(c.Seed, c.ID, name)))}
}

// RunCases runs fn for the cases prefix:0 .. prefix:n-1 on `workers` goroutines
// (0 = number of CPUs). Every case gets its own PRNG derived from (seed, id,
// case name), so a case can be replayed on its own.
func (c *Ctx) RunCases(prefix string, n int, workers int, fn func(cs *Case)) {
	names := make([]string, n)
	for i := range names {
		names[i] = fmt.Sprintf("%s:%d", prefix, i)
	}
	c.RunNamed(names, workers, fn)
}

func (c *Ctx) RunNamed(names []string, workers int, fn func(cs *Case)) {
	if workers <= 0 {
		workers = runtime.NumCPU()
	}
	ch := make(chan string)
	var wg sync.WaitGroup
	for w := 0; w < workers; w++ {
		wg.Add(1)
		go func() {
			defer wg.Done()
			for name := range ch {
				cs := c.newCase(name)
				stuckDone := c.watchStuck(cs.Name)
				func() {
					defer stuckDone()
					defer func() {
						if p := recover(); p != nil {
							// a panic escaping a case is either the library's (the
							// check should have guarded the call) or the harness's
							if msg := fmt.Sprint(p); strings.HasPrefix(msg, "harness:") {
								c.HarnessError("case %s: %s\n%s", cs.Name, msg, debug.Stack())
								return
							}
							cs.Violation("panic-escaped", nil, fmt.Sprintf("panic: %v", p), string(debug.Stack()))
						}
					}()
					fn(cs)
				}()
				c.mu.Lock()
				c.evaluations++
				c.mu.Unlock()
			}
		}()
	}
	for _, name := range names {
		if c.replayCase != "" && c.replayCase != name && !strings.HasPrefix(c.replayCase, name+"/") {
			continue
		}
		ch <- name
	}
	close(ch)
	wg.Wait()
}

// stuckLimit: a single case that has not finished after this long is reported
// (with a dump of all goroutines) and ends the run - every case of every check
// takes seconds, or a few minutes at most, on the unchanged tree, and the
// public operations it calls are all supposed to return.
func (c *Ctx) stuckLimit() time.Duration {
	if c.Quick() {
		return 25 * time.Minute
	}
	return 4 * time.Hour // some thorough-tier cases are one long worker loop
}

func (c *Ctx) watchStuck(name string) func() {
	done := make(chan struct{})
	go func() {
		select {
		case <-done:
		case <-time.After(c.stuckLimit()):
			buf := make([]byte, 1<<22)
			buf = buf[:runtime.Stack(buf, true)]
			dump := string(buf)
			if len(dump) > 200000 {
				dump = dump[:200000]
			}
			c.violation(name, "hang", nil, fmt.Sprintf("case %s has not finished after %v: a call into the library never returned (goroutine dump in the replay file)", name, c.stuckLimit()), map[string]any{"goroutines": dump})
			os.Exit(c.Finish())
		}
	}()
	return func() { close(done) }
}

// AddEvaluations counts executions made outside RunCases.
func (c *Ctx) AddEvaluations(n int) {
	c.mu.Lock()
	c.evaluations += int64(n)
	c.mu.Unlock()
}

func (c *Ctx) Distinct(sig string) {
	h := fnv.New64a()
	h.Write([]byte(sig))
	c.mu.Lock()
	c.distinct[h.Sum64()] = struct{}{}
	c.mu.Unlock()
}

// setDistinct is for enumerations whose cases are distinct by construction
// and too many to hash one by one: the measured count is stored directly.
func (c *Ctx) setDistinct(n int) {
	c.mu.Lock()
	c.distinctOverride = n
	c.mu.Unlock()
}

func (c *Ctx) Count(key string, n int) {
	c.mu.Lock()
	c.counters[key] += int64(n)
	c.mu.Unlock()
}

func (c *Ctx) Counter(key string) int64 {
	c.mu.Lock()
	defer c.mu.Unlock()
	return c.counters[key]
}

func (c *Ctx) Sample(max int, x any) {
	c.mu.Lock()
	if len(c.samples) < max {
		c.samples = append(c.samples, x)
	}
	c.mu.Unlock()
}

func (c *Ctx) Extra(key string, v any) {
	c.mu.Lock()
	c.extra[key] = v
	c.mu.Unlock()
}

func (c *Ctx) Assume(s ...string) { c.assumptions = append(c.assumptions, s...) }

func (c *Ctx) Inconclusive(why string) {
	c.mu.Lock()
	c.inconclusive++
	c.counters["inconclusive:"+why]++
	c.mu.Unlock()
}

// HarnessError records a condition under which the run cannot claim "held"
// (coverage floor missed, tooling absent): exit status 2, no verdict.
func (c *Ctx) HarnessError(format string, a ...any) {
	c.mu.Lock()
	c.harnessErrs = append(c.harnessErrs, fmt.Sprintf(format, a...))
	c.mu.Unlock()
}

// Floor fails the run (harness error) when a coverage counter stayed below min.
func (c *Ctx) Floor(key string, min int64) {
	if c.replayCase != "" {
		return
	}
	if v := c.Counter(key); v < min {
		c.HarnessError("coverage floor missed: %s = %d < %d", key, v, min)
	}
}

func (cs *Case) Violation(class string, tags map[string]string, msg string, witness any) {
	cs.Ctx.violation(cs.Name, class, tags, msg, witness)
}

func (c *Ctx) violation(caseName, class string, tags map[string]string, msg string, witness any) {
	c.mu.Lock()
	defer c.mu.Unlock()
	for _, f := range c.findings {
		if f.Status != "known" || f.Property != c.ID || f.Class != class {
			continue
		}
		ok := true
		for k, v := range f.Match {
			if tags[k] != v {
				ok = false
				break
			}
		}
		if ok {
			if c.known[f.ID] == 0 {
				fmt.Printf("KNOWN-FINDING: property=%s %s (id=%s, first seen in case %s)\n", c.ID, f.What, f.ID, caseName)
			}
			c.known[f.ID]++
			return
		}
	}
	c.violations++
	c.perClass[class]++
	if lf := os.Getenv("VERIF_VIOLATION_LOG"); lf != "" {
		if f, err := os.OpenFile(lf, os.O_APPEND|os.O_CREATE|os.O_WRONLY, 0o644); err == nil {
			fmt.Fprintf(f, "%s\t%s\t%s\t%s\n", c.ID, class, jsonStr(tags), strings.ReplaceAll(msg, "\n", " "))
			f.Close()
		}
	}
	if c.perClass[class] > 5 || c.violFiles >= 40 {
		return // counted, but not every instance is written out
	}
	c.violFiles++
	rep := map[string]any{
		"property": c.ID, "seed": c.Seed, "tier": c.Tier, "case": caseName,
		"class": class, "tags": tags, "message": msg, "witness": witness,
		"replay": fmt.Sprintf("./check %s --replay <this file>", c.ID),
	}
	dir := filepath.Join(c.Out, "replay")
	os.MkdirAll(dir, 0o755)
	path := filepath.Join(dir, fmt.Sprintf("%s-%d-%s-%d.json", c.ID, c.Seed, sanitize(class), c.violFiles))
	data, err := json.MarshalIndent(rep, "", " ")
	if err != nil {
		data, _ = json.MarshalIndent(map[string]any{"property": c.ID, "seed": c.Seed, "tier": c.Tier, "case": caseName, "class": class, "message": msg, "witness": fmt.Sprintf("%+v", witness)}, "", " ")
	}
	os.WriteFile(path, data, 0o644)
	if len(msg) > 600 {
		msg = msg[:600] + "..."
	}
	fmt.Printf("VIOLATION property=%s replay=%s\n  class=%s case=%s: %s\n", c.ID, path, class, caseName, strings.ReplaceAll(msg, "\n", "\n  "))
}

func sanitize(s string) string {
	b := []byte(s)
	for i, ch := range b {
		if !(ch >= 'a' && ch <= 'z' || ch >= 'A' && ch <= 'Z' || ch >= '0' && ch <= '9' || ch == '-' || ch == '_') {
			b[i] = '_'
		}
	}
	return string(b)
}

func (c *Ctx) nDistinct() int {
	if c.distinctOverride > 0 {
		return c.distinctOverride + len(c.distinct)
	}
	return len(c.distinct)
}

// Finish writes the evidence file and returns the exit status.
func (c *Ctx) Finish() int {
	os.RemoveAll(c.Scratch)
	c.mu.Lock()
	defer c.mu.Unlock()
	cov := map[string]any{
		"evaluations":         c.evaluations,
		"distinct_nontrivial": c.nDistinct(),
		"rule":                c.Rule,
		"samples":             c.samples,
	}
	keys := make([]string, 0, len(c.counters))
	for k := range c.counters {
		keys = append(keys, k)
	}
	sort.Strings(keys)
	cnt := map[string]int64{}
	for _, k := range keys {
		cnt[k] = c.counters[k]
	}
	cov["counters"] = cnt
	for k, v := range c.extra {
		cov[k] = v
	}
	cov["inconclusive"] = c.inconclusive
	cov["known_findings"] = c.known
	if len(c.harnessErrs) > 0 {
		cov["harness_errors"] = c.harnessErrs
	}
	if len(c.perClass) > 0 {
		cov["violations_by_class"] = c.perClass
	}
	ev := map[string]any{
		"property_id": c.ID, "tier": c.Tier, "seed": c.Seed, "level": c.Level,
		"coverage": cov, "assumptions": c.assumptions,
		"wall_s":     time.Since(c.start).Seconds(),
		"violations": c.violations,
	}
	if c.replayCase == "" {
		data, _ := json.MarshalIndent(ev, "", " ")
		os.MkdirAll(filepath.Join(c.Out, "evidence"), 0o755)
		tmp := filepath.Join(c.Out, "evidence", "."+c.ID+".tmp")
		os.WriteFile(tmp, data, 0o644)
		os.Rename(tmp, filepath.Join(c.Out, "evidence", c.ID+".json"))
	}
	fmt.Printf("%s %s seed=%d: evaluations=%d distinct_nontrivial=%d violations=%d known=%d inconclusive=%d wall=%.1fs\n",
		c.ID, c.Tier, c.Seed, c.evaluations, c.nDistinct(), c.violations, len(c.known), c.inconclusive, time.Since(c.start).Seconds())
	if c.violations > 0 {
		return 1
	}
	if len(c.harnessErrs) > 0 {
		for _, e := range c.harnessErrs {
			fmt.Fprintln(os.Stderr, "HARNESS-ERROR:", e)
		}
		return 2
	}
	return 0
}

// guard runs f and returns the panic value and stack if it panicked.
func guard(f func()) (pv any, stack string) {
	defer func() {
		if p := recover(); p != nil {
			pv = p
			stack = string(debug.Stack())
		}
	}()
	f()
	return nil, ""
}

func jsonStr(v any) string {
	b, err := json.Marshal(v)
	if err != nil {
		return fmt.Sprintf("<%v>", err)
	}
	return string(b)
}

func must(err error) {
	if err != nil {
		panic(fmt.Sprintf("harness: %v", err))
	}
}

func pickStr(r *rand.Rand, xs ...string) string { return xs[r.Intn(len(xs))] }

func chance(r *rand.Rand, pct int) bool { return r.Intn(100) < pct }

func bytesReader(b []byte) *strings.Reader { return strings.NewReader(string(b)) }

func yield() { runtime.Gosched() }

// nameHash: a PRNG-independent choice per scenario name.
func nameHash(name string) uint64 {
	h := fnv.New64a()
	h.Write([]byte(name))
	return h.Sum64()
}
