package main

import (
	"encoding/json"
	"fmt"
	"os"
	"strconv"
)

type checkFn func(c *Ctx)

var checks = map[string]checkFn{}

func register(id string, fn checkFn) { checks[id] = fn }

func usage() {
	fmt.Fprintln(os.Stderr, "usage: vcheck run <Cxx> quick|thorough | vcheck replay <Cxx> <file> | vcheck child-<mode> ...")
	os.Exit(2)
}

func main() {
	if len(os.Args) < 2 {
		usage()
	}
	switch cmd := os.Args[1]; {
	case cmd == "run" && len(os.Args) >= 4:
		os.Exit(runCheck(os.Args[2], os.Args[3]))
	case cmd == "replay" && len(os.Args) >= 4:
		data, err := os.ReadFile(os.Args[3])
		if err != nil {
			fmt.Fprintln(os.Stderr, err)
			os.Exit(2)
		}
		var rep struct {
			Seed int64  `json:"seed"`
			Tier string `json:"tier"`
			Case string `json:"case"`
		}
		if err := json.Unmarshal(data, &rep); err != nil {
			fmt.Fprintln(os.Stderr, err)
			os.Exit(2)
		}
		os.Setenv("VERIF_SEED", strconv.FormatInt(rep.Seed, 10))
		os.Setenv("VERIF_CASE", rep.Case)
		fmt.Printf("replaying %s case %q (seed %d, tier %s)\n", os.Args[2], rep.Case, rep.Seed, rep.Tier)
		os.Exit(runCheck(os.Args[2], rep.Tier))
	case len(cmd) > 6 && cmd[:6] == "child-":
		os.Exit(runChild(cmd[6:], os.Args[2:]))
	default:
		usage()
	}
}

func runCheck(id, tier string) int {
	fn, ok := checks[id]
	if !ok {
		fmt.Fprintf(os.Stderr, "no check for %s\n", id)
		return 2
	}
	if tier != "quick" && tier != "thorough" {
		usage()
	}
	c := newCtx(id, tier)
	fn(c)
	return c.Finish()
}

type childFn func(args []string) int

var children = map[string]childFn{}

func registerChild(mode string, fn childFn) { children[mode] = fn }

func runChild(mode string, args []string) int {
	fn, ok := children[mode]
	if !ok {
		fmt.Fprintf(os.Stderr, "no child mode %s\n", mode)
		return 2
	}
	return fn(args)
}
