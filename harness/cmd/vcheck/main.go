package main

import (
	"fmt"

	"github.com/anishathalye/porcupine"
	"tags.cncf.io/container-device-interface/pkg/cdi"
	"tags.cncf.io/container-device-interface/schema"
)

func main() {
	_ = porcupine.Ok
	_ = schema.BuiltinSchema()
	cdi.VerifSetHook(nil)
	fmt.Println("ok")
}
