package main

// Dispatch of the verif-tagged observation points of pkg/cdi to per-scenario
// handlers, and logical quiescence of the watcher goroutine (DESIGN 2.4).

import (
	"fmt"
	"os"
	"path/filepath"
	"runtime"
	"strings"
	"sync"
	"sync/atomic"
	"time"

	"golang.org/x/sys/unix"
	"tags.cncf.io/container-device-interface/pkg/cdi"
)

type hookFn func(point, arg string, n int)

var hookMux struct {
	once     sync.Once
	mu       sync.RWMutex
	byPrefix map[int]prefixHook
	global   map[int]hookFn
	next     int
}

type prefixHook struct {
	prefix string
	fn     hookFn
}

func hooksInit() {
	hookMux.once.Do(func() {
		hookMux.byPrefix = map[int]prefixHook{}
		hookMux.global = map[int]hookFn{}
		cdi.VerifSetHook(func(point, arg string, n int) {
			hookMux.mu.RLock()
			var hs []hookFn
			for _, h := range hookMux.byPrefix {
				// whole path components only: ".../auto_2" must not see ".../auto_20/..."
				if arg == h.prefix || strings.HasPrefix(arg, h.prefix+"/") {
					hs = append(hs, h.fn)
				}
			}
			for _, h := range hookMux.global {
				hs = append(hs, h)
			}
			hookMux.mu.RUnlock()
			for _, h := range hs {
				h(point, arg, n)
			}
		})
	})
}

// hookPrefix registers a handler for points whose string argument (a path)
// starts with prefix; the returned function removes it.
func hookPrefix(prefix string, h hookFn) func() {
	hooksInit()
	hookMux.mu.Lock()
	hookMux.next++
	id := hookMux.next
	hookMux.byPrefix[id] = prefixHook{strings.TrimRight(prefix, "/"), h}
	hookMux.mu.Unlock()
	return func() {
		hookMux.mu.Lock()
		delete(hookMux.byPrefix, id)
		hookMux.mu.Unlock()
	}
}

func hookGlobal(h hookFn) func() {
	hooksInit()
	hookMux.mu.Lock()
	hookMux.next++
	id := hookMux.next
	hookMux.global[id] = h
	hookMux.mu.Unlock()
	return func() {
		hookMux.mu.Lock()
		delete(hookMux.global, id)
		hookMux.mu.Unlock()
	}
}

// autoCache is an auto-refresh cache with an anchor directory used for
// logical quiescence. The anchor must be among the configured directories.
var autoCacheIDs atomic.Int64

type autoCache struct {
	id            int64 // makes the sentinel names of different caches distinct
	C             *cdi.Cache
	Anchor        string
	seq           int
	seen          chan string
	unhook        func()
	Events        map[string]int64 // events the watcher hook saw, by op string
	Trace         []string         // the first 400 of them, in order ("OP path")
	evMu          sync.Mutex
	nEvents       atomic.Int64
	SentinelsLost atomic.Int64
	hold          atomic.Pointer[chan struct{}] // when set, the watcher is held at its next event
}

var opNames = []struct {
	bit  int
	name string
}{{1, "CREATE"}, {2, "WRITE"}, {4, "REMOVE"}, {8, "RENAME"}, {16, "CHMOD"}}

func opString(n int) string {
	var s []string
	for _, o := range opNames {
		if n&o.bit != 0 {
			s = append(s, o.name)
		}
	}
	return strings.Join(s, "|")
}

// newAutoCache creates an auto-refresh cache on dirs; root is the common
// prefix of all its directories (used to route hook events); anchor is one of
// dirs, exists for the whole scenario and never receives Spec files.
func newAutoCache(root, anchor string, dirs []string) (*autoCache, error) {
	a := &autoCache{Anchor: anchor, seen: make(chan string, 1024), Events: map[string]int64{}, id: autoCacheIDs.Add(1)}
	a.unhook = hookPrefix(root, func(point, arg string, n int) {
		if point != "watch.event" {
			return
		}
		a.nEvents.Add(1)
		a.evMu.Lock()
		a.Events[opString(n)]++
		if len(a.Trace) < 400 {
			a.Trace = append(a.Trace, opString(n)+" "+arg)
		}
		a.evMu.Unlock()
		if hp := a.hold.Load(); hp != nil && !strings.HasSuffix(arg, ".sentinel") {
			<-*hp
		}
		if strings.HasSuffix(arg, ".sentinel") {
			select {
			case a.seen <- filepath.Base(arg):
			default:
			}
		}
	})
	// The number of inotify instances is limited per user (fs.inotify.max_user_instances),
	// so other processes of this uid can make watcher creation fail for a while: that is a
	// state of the machine, not of the library - wait for an instance and try again.
	for attempt := 0; ; attempt++ {
		opt, reuse := withDirs(dirs)
		c, err := cdi.NewCache(opt, cdi.WithAutoRefresh(true))
		reuse()
		if err != nil {
			a.unhook()
			return nil, err
		}
		a.C = c
		if !watcherMissing(c) {
			return a, nil
		}
		releaseCache(c)
		a.C = nil
		if attempt >= 7 {
			a.unhook()
			return nil, fmt.Errorf("no inotify instance available (8 attempts)")
		}
		envShortages.Add(1)
		waitInotify(15 * time.Second)
	}
}

// envShortages counts how often the machine (not a fault injected by the
// harness) had no inotify instance left for this user.
var envShortages atomic.Int64

// watcherMissing tells whether an auto-refresh cache reports that it could not
// create its watcher.
func watcherMissing(c *cdi.Cache) bool {
	for _, errs := range c.GetErrors() {
		for _, e := range errs {
			if strings.Contains(e.Error(), "failed to create watcher") {
				return true
			}
		}
	}
	return false
}

// inotifyAvailable probes whether this user can create an inotify instance now.
func inotifyAvailable() bool {
	fd, err := unix.InotifyInit1(unix.IN_CLOEXEC)
	if err != nil {
		return false
	}
	unix.Close(fd)
	return true
}

// waitInotify waits (bounded) until an inotify instance can be created.
func waitInotify(max time.Duration) bool {
	deadline := time.Now().Add(max)
	for {
		if inotifyAvailable() {
			return true
		}
		if time.Now().After(deadline) {
			return false
		}
		time.Sleep(200 * time.Millisecond)
	}
}

// newRefAutoCache creates an auto-refresh cache with the given options for use
// as a reference, riding out a shortage of inotify instances on the machine.
func newRefAutoCache(opts ...cdi.Option) (*cdi.Cache, bool) {
	for attempt := 0; ; attempt++ {
		c, _ := cdi.NewCache(opts...)
		if c == nil || !watcherMissing(c) {
			return c, true
		}
		if attempt >= 7 {
			return c, false
		}
		releaseCache(c)
		envShortages.Add(1)
		waitInotify(15 * time.Second)
	}
}

// Hold makes the watcher goroutine block at the next (non-sentinel) event it
// receives until the returned function is called.
func (a *autoCache) Hold() (release func()) {
	ch := make(chan struct{})
	a.hold.Store(&ch)
	return func() {
		a.hold.Store(nil)
		close(ch)
	}
}

// Quiesce returns true once the watcher goroutine has processed every event
// generated before the call: it creates a sentinel file in the anchor
// directory and waits until the watcher hook reports it. false = watchdog
// fired (inconclusive, never a verdict).
func (a *autoCache) Quiesce() bool {
	// Up to 6 sentinels, 1,1,2,4,8,16 s apart: seeing ANY of them proves that everything
	// queued before the first one has been handled (or dropped) by the watcher.
	// A sentinel that is never reported is counted (SentinelsLost): the watcher
	// lost an event; the deciding oracle is still the comparison made afterwards.
	var names []string
	for try := 0; try < 6; try++ {
		a.seq++
		name := fmt.Sprintf(".q%d-%d.sentinel", a.id, a.seq)
		f, err := os.Create(filepath.Join(a.Anchor, name))
		if err != nil {
			return false
		}
		f.Close()
		names = append(names, name)
		deadline := time.After([]time.Duration{1, 1, 2, 4, 8, 16}[try] * time.Second)
	wait:
		for {
			select {
			case got := <-a.seen:
				for i, n := range names {
					if got == n {
						a.SentinelsLost.Add(int64(i))
						return true
					}
				}
			case <-deadline:
				break wait
			}
		}
	}
	return false
}

// QuiesceOrControl is Quiesce with a second opinion: when none of the sentinels was
// handled (32 s), a control cache created now on the same directories gets the same
// chance. If the control handles its sentinel the machine is fine and the silence is
// the cache's own: the caller goes on to its comparison (proceed = true) instead of
// giving up; the comparison then decides.
func (a *autoCache) QuiesceOrControl(root string, dirs []string) (proceed bool) {
	if a.Quiesce() {
		return true
	}
	ctl, err := newAutoCache(root, a.Anchor, dirs)
	if err != nil {
		return false
	}
	defer ctl.Close()
	return ctl.Quiesce()
}

func (a *autoCache) Close() {
	if a.C != nil {
		releaseCache(a.C)
	}
	a.unhook()
}

// deadlocked is set when a cache operation of the harness's own housekeeping
// never returned; C12 reports it, the other checks only avoid hanging on it.
var deadlocked atomic.Pointer[string]

// releaseCache switches auto-refresh off (the only way to release a watcher),
// under a watchdog: a cache whose Configure() never returns must not hang the harness.
func releaseCache(c *cdi.Cache) bool {
	done := make(chan struct{})
	go func() {
		c.Configure(cdi.WithAutoRefresh(false))
		close(done)
	}()
	select {
	case <-done:
		return true
	case <-time.After(60 * time.Second):
		buf := make([]byte, 1<<21)
		buf = buf[:runtime.Stack(buf, true)]
		dump := string(buf)
		deadlocked.CompareAndSwap(nil, &dump)
		fmt.Fprintln(os.Stderr, "harness: Cache.Configure(WithAutoRefresh(false)) has not returned for 60 s; abandoning that cache")
		return false
	}
}

// EventTrace returns the events the watcher received, in order.
func (a *autoCache) EventTrace() []string {
	a.evMu.Lock()
	defer a.evMu.Unlock()
	return append([]string{}, a.Trace...)
}

func (a *autoCache) EventCounts() map[string]int64 {
	a.evMu.Lock()
	defer a.evMu.Unlock()
	m := map[string]int64{}
	for k, v := range a.Events {
		m[k] = v
	}
	return m
}

// withDirs passes a directory list to WithSpecDirs the way many callers do - as a
// slice they go on using - and returns a function that overwrites that slice:
// a cache owns its configuration, the caller's later use of the slice must not
// reach it.
func withDirs(dirs []string) (cdi.Option, func()) {
	tmp := make([]string, len(dirs), len(dirs)+2)
	copy(tmp, dirs)
	return cdi.WithSpecDirs(tmp...), func() {
		for i := range tmp {
			tmp[i] = "/nonexistent/reused-by-the-caller"
		}
		_ = append(tmp, "/nonexistent/appended-by-the-caller")
	}
}
