package main

// C19, monitor subcommand: `cdi monitor devices` prints the device listing one
// second after the last change in the Spec directories. Every listing it
// prints must be the library's; a change it does not report at all is judged
// against a control change made afterwards (the tool is alive and reports that
// one), never against the clock alone.

import (
	"bufio"
	"fmt"
	"os"
	"os/exec"
	"path/filepath"
	"reflect"
	"regexp"
	"sort"
	"strings"
	"sync"
	"time"

	"tags.cncf.io/container-device-interface/pkg/cdi"
)

var reMonHeader = regexp.MustCompile(`^(CDI devices found:|No CDI devices found\.)$`)

func c19Monitor(c *Ctx, cdiBin string) {
	c.RunCases("monitor", c.pick(4, 30), 4, func(cs *Case) {
		r := cs.R
		root := filepath.Join(c.Scratch, sanitize(cs.Name))
		d0, d1, staging := filepath.Join(root, "d0"), filepath.Join(root, "d1"), filepath.Join(root, "staging")
		for _, d := range []string{d0, d1, staging} {
			must(os.MkdirAll(d, 0o755))
		}
		defer os.RemoveAll(root)
		spec := func(dev string) []byte {
			return []byte(fmt.Sprintf(`{"cdiVersion":"0.6.0","kind":"vendor.com/gpu","devices":[{"name":"%s","containerEdits":{"env":["D=%s"]}}]}`, dev, dev))
		}
		present := map[string]string{} // path -> device
		put := func(path, dev string) {
			must(os.WriteFile(path, spec(dev), 0o644))
			present[path] = dev
		}
		put(filepath.Join(d0, "init.json"), "init")
		dirs := []string{d0, d1}
		cmd := exec.Command(cdiBin, "--spec-dirs", strings.Join(dirs, ","), "monitor", "devices")
		cmd.Env = append(os.Environ(), "HOME=/nonexistent")
		stdout, err := cmd.StdoutPipe()
		must(err)
		cmd.Stderr = cmd.Stdout
		if err := cmd.Start(); err != nil {
			c.Inconclusive("exec")
			return
		}
		var mu sync.Mutex
		var lines []string
		done := make(chan struct{})
		go func() {
			defer close(done)
			sc := bufio.NewScanner(stdout)
			sc.Buffer(make([]byte, 1<<20), 1<<20)
			for sc.Scan() {
				mu.Lock()
				lines = append(lines, sc.Text())
				mu.Unlock()
			}
		}()
		defer func() {
			cmd.Process.Kill()
			cmd.Wait()
			<-done
		}()
		// blocks printed so far, and the devices of the last one
		blocks := func() (int, []string, string) {
			mu.Lock()
			defer mu.Unlock()
			n := 0
			var last []string
			for _, l := range lines {
				if reMonHeader.MatchString(l) {
					n++
					last = nil
					continue
				}
				if m := reNumbered.FindStringSubmatch(l); m != nil {
					last = append(last, m[1])
				}
			}
			sort.Strings(last)
			return n, last, strings.Join(lines, "\n")
		}
		waitFor := func(n int, max time.Duration) bool {
			deadline := time.Now().Add(max)
			for time.Now().Before(deadline) {
				if k, _, _ := blocks(); k >= n {
					// (a block is printed line by line: give its last lines a moment)
					time.Sleep(100 * time.Millisecond)
					return true
				}
				select {
				case <-done:
					return false
				case <-time.After(50 * time.Millisecond):
				}
			}
			return false
		}
		library := func() []string {
			fresh, _ := cdi.NewCache(cdi.WithSpecDirs(dirs...), cdi.WithAutoRefresh(false))
			l := fresh.ListDevices()
			sort.Strings(l)
			return l
		}
		same := func(a, b []string) bool { return (len(a) == 0 && len(b) == 0) || reflect.DeepEqual(a, b) }
		const patience = 60 * time.Second
		if !waitFor(1, patience) {
			_, _, out := blocks()
			if strings.Contains(out, "failed to") || strings.Contains(out, "too many open files") {
				c.Inconclusive("no-inotify-instance")
			} else {
				c.Inconclusive("monitor-start")
			}
			return
		}
		var history []string
		steps := 2 + r.Intn(3)
		for k := 0; k <= steps; k++ {
			kind := "initial listing"
			if k > 0 {
				dir := dirs[r.Intn(2)]
				name := fmt.Sprintf("s%d.%s", k, pickStr(r, "json", "yaml"))
				var existing []string
				for p := range present {
					existing = append(existing, p)
				}
				sort.Strings(existing)
				kind = pickStr(r, "rename-in", "rename-in", "hardlink-in", "plain-write", "remove", "rewrite")
				if (kind == "remove" || kind == "rewrite") && len(existing) == 0 {
					kind = "rename-in"
				}
				switch kind {
				case "rename-in", "hardlink-in":
					st := filepath.Join(staging, name)
					must(os.WriteFile(st, spec(fmt.Sprintf("dev%d", k)), 0o644))
					if kind == "rename-in" {
						must(os.Rename(st, filepath.Join(dir, name)))
					} else {
						must(os.Link(st, filepath.Join(dir, name)))
					}
					present[filepath.Join(dir, name)] = fmt.Sprintf("dev%d", k)
				case "plain-write":
					put(filepath.Join(dir, name), fmt.Sprintf("dev%d", k))
				case "remove":
					p := existing[r.Intn(len(existing))]
					must(os.Remove(p))
					delete(present, p)
				default:
					p := existing[r.Intn(len(existing))]
					put(p, fmt.Sprintf("re%d", k))
				}
				history = append(history, kind)
				c.Count("monitor_change:"+kind, 1)
			}
			n0, _, _ := blocks()
			reported := k == 0 || waitFor(n0+1, patience)
			_, last, _ := blocks()
			want := library()
			if reported && same(last, want) {
				c.Count("monitor_listings_compared", 1)
				continue
			}
			// control: a plain write elsewhere, which the tool must report; what it prints then is final
			n1, _, _ := blocks()
			put(filepath.Join(d1, fmt.Sprintf("zz-control-%d.json", k)), fmt.Sprintf("control%d", k))
			if !waitFor(n1+1, patience) {
				c.Inconclusive("monitor-silent")
				return
			}
			_, last, out := blocks()
			want = library()
			wit := map[string]any{"history": history, "output": clip(out, 6000), "library": want, "last_listing": last}
			if !same(last, want) {
				cs.Violation("monitor-listing", map[string]string{"change": kind}, fmt.Sprintf("cdi monitor devices: after %v and a control change the last listing printed is %v, the library lists %v", history, last, want), wit)
				return
			}
			if !reported {
				cs.Violation("monitor-missed-change", map[string]string{"change": kind}, fmt.Sprintf("cdi monitor devices printed nothing for the change %q within %v, while it did report a plain write made afterwards (history %v)", kind, patience, history), wit)
				return
			}
			c.Count("monitor_listings_compared", 1)
		}
		c.Distinct("monitor|" + strings.Join(history, ","))
	})
	c.Floor("monitor_listings_compared", 6)
}
