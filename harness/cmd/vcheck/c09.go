package main

// C09 — written Spec files read back equal, in both encodings.

import (
	"encoding/json"
	"fmt"
	"golang.org/x/sys/unix"
	"math"
	"math/rand"
	"os"
	"os/exec"
	"path/filepath"
	"strings"

	"tags.cncf.io/container-device-interface/pkg/cdi"
	specs "tags.cncf.io/container-device-interface/specs-go"
)

func init() { register("C09", checkC09) }

// c09BomSweep: the number of file offsets swept with a mark (PRNG independent cases).
const c09BomSweep = 1100

// c09Fields: every free-text field of a Spec. set returns false when the
// string would make the Spec invalid for that field (then the case is skipped).
var c09Fields = []struct {
	name string
	set  func(s *specs.Spec, v string) bool
}{
	{"env-value", func(s *specs.Spec, v string) bool {
		s.Devices[0].ContainerEdits.Env = []string{"A=" + v, "B=2"}
		return true
	}},
	{"spec-env-value", func(s *specs.Spec, v string) bool { s.ContainerEdits.Env = []string{"X=1", "A=" + v}; return true }},
	{"node-path", func(s *specs.Spec, v string) bool {
		s.Devices[0].ContainerEdits.DeviceNodes = []*specs.DeviceNode{{Path: v, Type: "c", Major: 1}}
		return v != ""
	}},
	{"node-hostPath", func(s *specs.Spec, v string) bool {
		s.Devices[0].ContainerEdits.DeviceNodes = []*specs.DeviceNode{{Path: "/dev/x", HostPath: v, Type: "c", Major: 1}}
		return true
	}},
	{"hook-path", func(s *specs.Spec, v string) bool {
		s.Devices[0].ContainerEdits.Hooks = []*specs.Hook{{HookName: "prestart", Path: v}}
		return v != ""
	}},
	{"hook-arg", func(s *specs.Spec, v string) bool {
		s.Devices[0].ContainerEdits.Hooks = []*specs.Hook{{HookName: "poststop", Path: "/bin/h", Args: []string{"first", v, "last"}}}
		return true
	}},
	{"hook-env-value", func(s *specs.Spec, v string) bool {
		s.Devices[0].ContainerEdits.Hooks = []*specs.Hook{{HookName: "createRuntime", Path: "/bin/h", Env: []string{"K=" + v}}}
		return true
	}},
	{"mount-hostPath", func(s *specs.Spec, v string) bool {
		s.Devices[0].ContainerEdits.Mounts = []*specs.Mount{{HostPath: v, ContainerPath: "/c"}}
		return v != ""
	}},
	{"mount-containerPath", func(s *specs.Spec, v string) bool {
		s.Devices[0].ContainerEdits.Mounts = []*specs.Mount{{HostPath: "/h", ContainerPath: v}}
		return v != ""
	}},
	{"mount-option", func(s *specs.Spec, v string) bool {
		s.Devices[0].ContainerEdits.Mounts = []*specs.Mount{{HostPath: "/h", ContainerPath: "/c", Options: []string{"ro", v}}}
		return true
	}},
	{"mount-type", func(s *specs.Spec, v string) bool {
		s.Devices[0].ContainerEdits.Mounts = []*specs.Mount{{HostPath: "/h", ContainerPath: "/c", Type: v}}
		return true
	}},
	{"spec-annotation-value", func(s *specs.Spec, v string) bool {
		s.Annotations = map[string]string{"k": v, "other": "x"}
		return true
	}},
	{"device-annotation-value", func(s *specs.Spec, v string) bool {
		s.Devices[0].Annotations = map[string]string{"example.com/k": v}
		return true
	}},
	{"rdt-l3", func(s *specs.Spec, v string) bool {
		s.Devices[0].ContainerEdits.IntelRdt = &specs.IntelRdt{ClosID: "c", L3CacheSchema: v}
		return true
	}},
	{"rdt-membw", func(s *specs.Spec, v string) bool {
		s.ContainerEdits.IntelRdt = &specs.IntelRdt{MemBwSchema: v}
		return true
	}},
	{"rdt-closid", func(s *specs.Spec, v string) bool {
		s.Devices[0].ContainerEdits.IntelRdt = &specs.IntelRdt{ClosID: v}
		bad := len(v) >= 4096 || v == "." || v == ".."
		for i := 0; i < len(v); i++ {
			if v[i] == '/' || v[i] == '\n' {
				bad = true
			}
		}
		return !bad
	}},
}

func c09CatalogueSize() int {
	n := 0
	for _, c := range gstrCatalogue {
		n += len(c.vals)
	}
	return n
}

func c09CatalogueEntry(i int) (class, val string) {
	for _, c := range gstrCatalogue {
		if i < len(c.vals) {
			return c.name, c.vals[i]
		}
		i -= len(c.vals)
	}
	return "", ""
}

func c09Base(r *rand.Rand) *specs.Spec {
	s := &specs.Spec{Version: "1.0.0", Kind: "vendor.com/gpu"}
	s.Devices = []specs.Device{{Name: "dev0", ContainerEdits: specs.ContainerEdits{Env: []string{"BASE=1"}}}}
	if chance(r, 50) {
		s.Devices = append(s.Devices, specs.Device{Name: "dev1", ContainerEdits: specs.ContainerEdits{Env: []string{"SECOND=2"}, Mounts: []*specs.Mount{{HostPath: "/a", ContainerPath: "/b", Options: []string{"x", "y"}}}}})
	}
	return s
}

// c09Numeric sets numeric extremes.
func c09Numeric(r *rand.Rand, s *specs.Spec) string {
	e := &s.Devices[0].ContainerEdits
	switch r.Intn(6) {
	case 0:
		e.DeviceNodes = []*specs.DeviceNode{{Path: "/dev/x", Type: "c", Major: math.MaxInt64, Minor: math.MinInt64}}
		return "major=MaxInt64 minor=MinInt64"
	case 1:
		e.DeviceNodes = []*specs.DeviceNode{{Path: "/dev/x", Type: "b", Major: math.MinInt64, Minor: math.MaxInt64, UID: u32p(math.MaxUint32), GID: u32p(0)}}
		return "major=MinInt64 uid=MaxUint32 gid=0"
	case 2:
		e.DeviceNodes = []*specs.DeviceNode{{Path: "/dev/x", Type: "p", FileMode: fmode(math.MaxUint32)}, {Path: "/dev/y", Type: "p", FileMode: fmode(0)}}
		return "fileMode=MaxUint32,0"
	case 3:
		e.Hooks = []*specs.Hook{{HookName: "prestart", Path: "/h", Timeout: intp(math.MaxInt64)}, {HookName: "prestart", Path: "/h", Timeout: intp(0)}, {HookName: "prestart", Path: "/h", Timeout: intp(math.MinInt64)}}
		return "timeout=MaxInt64,0,MinInt64"
	case 4:
		e.AdditionalGIDs = []uint32{0, math.MaxUint32, 1, 0}
		return "gids=0,MaxUint32"
	default:
		e.DeviceNodes = []*specs.DeviceNode{{Path: "/dev/x", Type: "c", Major: 1 << 53, Minor: (1 << 53) + 1}}
		return "major=2^53 minor=2^53+1"
	}
}

func checkC09(c *Ctx) {
	c.Rule = "valid Specs in which one free-text field at a time (16 fields: env values, node path/hostPath, hook path/arg/env, mount host/container path/option/type, spec and device annotation values, RDT strings) takes a G-STR string (catalogue of YAML-sensitive spellings, blanks, line breaks in every position, quotes, indicators, C0/C1 controls, DEL, NEL, LS/PS, BOM, non-characters, non-BMP, long strings; plus seeded compositions of fragments), numeric extremes of every integer field, and in-memory shapes with allocated-but-empty lists and maps (judged only if the writer accepts them); written with Cache.WriteSpec as x.json, x.yaml and x, read back with ReadSpec and through Cache.Refresh+GetDevice; distinct_nontrivial = distinct (field, string class or composed string, encoding) combinations"
	c.Assume("equality identifies nil and empty containers (normalised JSON comparison)", "only valid UTF-8 strings are generated (the property quantifies over valid UTF-8)")
	dir := filepath.Join(c.Scratch, "c09")
	must(os.MkdirAll(dir, 0o755))
	c.RunCases("gen", c.pick(6600, 150000), 0, func(cs *Case) {
		r := cs.R
		s := c09Base(r)
		if chance(r, 8) {
			s.Version = "v" + s.Version // (an accepted spelling: it reads back as written)
		}
		var field, class, val string
		mayRefuse := false
		var idx int
		fmt.Sscanf(cs.Name, "gen:%d", &idx)
		largeSizes := []int{1300 << 10, 4500 << 10}
		if !c.Quick() {
			largeSizes = append(largeSizes, 9<<20, 17<<20, 33<<20)
		}
		if idx < len(largeSizes) {
			// size is no excuse: Specs whose files exceed 1, 4, ... MiB (many devices)
			field, class = "size", "large"
			val = fmt.Sprintf("more than %d KiB", largeSizes[idx]>>10)
			filler := strings.Repeat("x", 2000)
			// (every third device is filled with characters a writer has to escape, at every
			// alignment the device names of growing length give them)
			special := strings.Repeat("\u0085a\u009f\uffff", 250)
			for n := 0; n*2060 < largeSizes[idx]; n++ {
				f := filler
				if n%3 == 1 {
					f = special
				}
				s.Devices = append(s.Devices, specs.Device{Name: fmt.Sprintf("fill%d", n), ContainerEdits: specs.ContainerEdits{Env: []string{"F=" + f}}})
			}
			s.Devices = append(s.Devices, specs.Device{Name: "last", ContainerEdits: specs.ContainerEdits{Env: []string{"LAST=1"}}})
			c.Count("large_specs", 1)
		} else if k := idx - len(largeSizes); k < c09BomSweep {
			// a byte order mark (and other characters with a meaning at the start of a
			// document or a line) at every offset of the file modulo the reader's block sizes
			field, class = "device-env-value", "bom-offset"
			ch, pad := "\ufeff", k
			if k >= 600 {
				ch, pad = []string{"\u2028", "\u0085", "\ufffe", "\u009f", "\ufeff\ufeff"}[k%5], (k-600)*5/4
			}
			val = strings.Repeat("p", pad) + ch
			s.Devices = s.Devices[:1]
			s.Devices[0].ContainerEdits.Env = []string{"A=" + val}
			c.Count("marks_at_swept_offsets", 1)
		} else if k := idx - len(largeSizes) - c09BomSweep; k < len(c09Fields)*c09CatalogueSize() {
			// every catalogue string in every free-text field, whatever the seed
			f := c09Fields[k%len(c09Fields)]
			class, val = c09CatalogueEntry(k / len(c09Fields))
			field = f.name
			if !f.set(s, val) {
				c.Count("skipped_invalid_for_field", 1)
				return
			}
			c.Count("catalogue_strings_x_fields", 1)
		} else if chance(r, 6) {
			// in-memory shapes a parsed document never has: allocated but empty lists and
			// maps. Whether such a Spec is accepted for writing is the library's call
			// (a device whose edits are all empty has no edits); IF it is accepted the
			// file must read back like any other
			field, class = "shape", "shape"
			e := &s.Devices[len(s.Devices)-1].ContainerEdits
			switch k := r.Intn(7); k {
			case 0:
				*e = specs.ContainerEdits{Env: []string{}}
				val, mayRefuse = "device edits = {env: []} only", true
			case 1:
				*e = specs.ContainerEdits{Env: []string{}, DeviceNodes: []*specs.DeviceNode{}, Hooks: []*specs.Hook{}, Mounts: []*specs.Mount{}, AdditionalGIDs: []uint32{}}
				val, mayRefuse = "device edits = every list allocated and empty", true
			case 2:
				*e = specs.ContainerEdits{Mounts: []*specs.Mount{}}
				val, mayRefuse = "device edits = {mounts: []} only", true
			case 3:
				e.DeviceNodes, e.Hooks, e.AdditionalGIDs = []*specs.DeviceNode{}, []*specs.Hook{}, []uint32{}
				val = "real edits next to allocated empty lists"
			case 4:
				s.ContainerEdits = specs.ContainerEdits{Env: []string{}, Mounts: []*specs.Mount{}}
				s.Annotations = map[string]string{}
				s.Devices[0].Annotations = map[string]string{}
				val = "spec-level edits and annotations allocated and empty"
			case 5:
				e.Hooks = []*specs.Hook{{HookName: "prestart", Path: "/h", Args: []string{}, Env: []string{}}}
				e.Mounts = []*specs.Mount{{HostPath: "/h", ContainerPath: "/c", Options: []string{}}}
				val = "hook args/env and mount options allocated and empty"
			default:
				*e = specs.ContainerEdits{IntelRdt: &specs.IntelRdt{}}
				val, mayRefuse = "device edits = empty intelRdt object only", true
			}
			c.Count("in_memory_shapes", 1)
		} else if chance(r, 8) {
			field, class = "numeric", "numeric"
			val = c09Numeric(r, s)
		} else {
			f := c09Fields[r.Intn(len(c09Fields))]
			class, val = gstr(r)
			field = f.name
			if !f.set(s, val) {
				c.Count("skipped_invalid_for_field", 1)
				return
			}
		}
		sub := filepath.Join(dir, sanitize(cs.Name))
		must(os.MkdirAll(sub, 0o755))
		defer os.RemoveAll(sub)
		var cache *cdi.Cache
		var ac *autoCache
		switch k := r.Intn(20); {
		case k < 3:
			// an auto-refresh cache whose only directory does not exist yet: the first
			// WriteSpec creates it
			anchor := filepath.Join(sub, "anchor")
			must(os.MkdirAll(anchor, 0o755))
			a, err := newAutoCache(sub, anchor, []string{anchor, filepath.Join(sub, "specs")})
			if err != nil {
				c.Inconclusive("no-inotify")
				return
			}
			defer a.Close()
			cache, ac = a.C, a
			sub = filepath.Join(sub, "specs") // (does not exist yet)
			c.Count("auto_caches_on_a_directory_the_writer_creates", 1)
		case k < 6:
			// a cache that started out on another directory and was reconfigured
			elsewhere := sub + "-configured-first"
			must(os.MkdirAll(elsewhere, 0o755))
			defer os.RemoveAll(elsewhere)
			cache, _ = cdi.NewCache(cdi.WithSpecDirs(elsewhere), cdi.WithAutoRefresh(false))
			cache.Configure(cdi.WithSpecDirs(sub))
			c.Count("caches_reconfigured_before_writing", 1)
		default:
			cache, _ = cdi.NewCache(cdi.WithSpecDirs(sub), cdi.WithAutoRefresh(false))
		}
		want := exactJSON(s)
		if chance(r, 15) {
			// entries that are neither Spec files nor directories, sorted before the Spec
			// files: a link to a directory (an atomically updated volume has "..data"), a FIFO
			os.Symlink(dir, filepath.Join(sub, pickStr(r, "..data", "0link", "..2026_10_03")))
			unix.Mkfifo(filepath.Join(sub, pickStr(r, "0fifo", ".fifo")), 0o600)
			c.Count("directories_with_links_and_fifos_before_the_spec_files", 1)
		}
		loaded := map[string]string{}
		leftovers := chance(r, 20)
		if leftovers {
			c.Count("writes_next_to_leftovers_of_interrupted_writers", 1)
		}
		// (the fourth name ends in something that is not exactly ".json" or ".yaml": like a
		// name without extension it gets ".yaml" appended)
		for _, name := range []string{"x.json", "x.yaml", "x", pickStr(r, "x.YAML", "x.Json", "x.JSON", "x.yml", "x.json.bak", "x.yaml.", "x.Yaml")} {
			enc := "yaml"
			if name == "x.json" {
				enc = "json"
			}
			file := filepath.Join(sub, name)
			if name != "x.json" && name != "x.yaml" {
				file += ".yaml"
			}
			os.Remove(filepath.Join(sub, "x.yaml"))
			if leftovers {
				// what interrupted writers of this very name may have left behind: longer
				// than anything written now, and a valid continuation in either encoding
				junk := []byte(strings.Repeat("#", 300) + "\n" + strings.Repeat("- name: ghost\n  containerEdits:\n    env: [\"GHOST=1\"]\n", 40))
				os.WriteFile(file+".tmp", junk, 0o600)
				os.WriteFile(filepath.Join(sub, "spec.12345.tmp"), junk, 0o600)
				os.WriteFile(filepath.Join(sub, "."+filepath.Base(file)+".tmp"), junk, 0o600)
			}
			tags := strTraits(val)
			tags["encoding"], tags["field"], tags["class"] = enc, field, class
			wit := func(extra map[string]any) map[string]any {
				data, _ := os.ReadFile(file)
				m := map[string]any{"field": field, "class": class, "value": val, "value_bytes": []byte(val), "name": name, "spec": s, "file_content": string(data)}
				for k, v := range extra {
					m[k] = v
				}
				return m
			}
			var werr error
			arg := cloneSpec(s)
			if class == "shape" {
				arg = s // a JSON clone would turn the allocated empty lists into nil ones
			}
			argBefore := exactJSON(arg)
			if pv, st := guard(func() { werr = cache.WriteSpec(arg, name) }); pv != nil {
				cs.Violation("panic", tags, fmt.Sprintf("WriteSpec panics: %v", pv), wit(map[string]any{"stack": st}))
				return
			}
			c.Count("writes", 1)
			// the Spec object is the caller's: writing it out is no licence to change it
			if after := exactJSON(arg); after != argBefore {
				cs.Violation("argument-modified", tags, fmt.Sprintf("WriteSpec(%s) changed the Spec object it was given (%s = %q)\n before %s\n after  %s", name, field, val, clip(argBefore, 1500), clip(after, 1500)), wit(nil))
				return
			}
			c.Distinct(field + "|" + class + "|" + enc + "|" + func() string {
				if class == "composed" {
					return val
				}
				return ""
			}())
			if werr != nil && mayRefuse {
				c.Count("in_memory_shapes_refused_by_the_writer", 1)
				continue
			}
			if werr != nil {
				cs.Violation("write-rejected", tags, fmt.Sprintf("WriteSpec(%s) rejects a valid Spec (%s = %q): %v", name, field, val, werr), wit(nil))
				continue
			}
			var rs *cdi.Spec
			var rerr error
			if pv, st := guard(func() { rs, rerr = cdi.ReadSpec(file, 0) }); pv != nil {
				cs.Violation("panic", tags, fmt.Sprintf("ReadSpec panics: %v", pv), wit(map[string]any{"stack": st}))
				return
			}
			if rerr != nil {
				cs.Violation("unreadable", tags, fmt.Sprintf("%s written by WriteSpec cannot be read back (%s = %q): %v", name, field, val, rerr), wit(nil))
				continue
			}
			got := exactJSON(rs.Spec)
			loaded[name] = got
			if got != want {
				cs.Violation("altered", tags, fmt.Sprintf("%s reads back different from what was written (%s = %q)\n written %s\n read    %s", name, field, val, want, got), wit(nil))
				continue
			}
			// through the cache (an auto-refresh cache first gets to see its events)
			if ac != nil && !ac.Quiesce() {
				c.Inconclusive("quiesce-timeout")
				return
			}
			cache.Refresh()
			d := cache.GetDevice("vendor.com/gpu=dev0")
			if d == nil || exactJSON(d.Device) != exactJSON(s.Devices[0]) {
				cs.Violation("cache-differs", tags, fmt.Sprintf("%s loaded through the cache yields a different device (%s = %q): errors %v", name, field, val, cache.GetErrors()), wit(nil))
				continue
			}
			if class == "large" {
				if d := cache.GetDevice("vendor.com/gpu=last"); d == nil || len(cache.ListDevices()) != len(s.Devices) {
					cs.Violation("cache-differs", tags, fmt.Sprintf("%s (%s) loaded through the cache: %d of %d devices, last device resolves: %v, errors %v", name, val, len(cache.ListDevices()), len(s.Devices), d != nil, cache.GetErrors()), map[string]any{"name": name, "devices": len(s.Devices)})
					continue
				}
			}
			c.Count("roundtrips_ok", 1)
			os.Remove(file)
		}
		// another Spec written under the same stem in the other encoding is another file:
		// the first one is still there and reads back as it was written
		if chance(r, 20) && class != "large" {
			other := &specs.Spec{Version: "0.6.0", Kind: "other.org/dev", Devices: []specs.Device{{Name: "o", ContainerEdits: specs.ContainerEdits{Env: []string{"O=1"}}}}}
			first, second := "y.json", "y.yaml"
			if chance(r, 50) {
				first, second = "y.yaml", pickStr(r, "y.json", "y.json")
			}
			e1 := cache.WriteSpec(cloneSpec(s), first)
			// (whether the first file reads back at all is judged above, per encoding: here it
			// only has to read back after the second write like it did before it)
			rs0, rerr0 := cdi.ReadSpec(filepath.Join(sub, first), 0)
			e2 := cache.WriteSpec(other, second)
			rs, rerr := cdi.ReadSpec(filepath.Join(sub, first), 0)
			c.Count("second_writes_under_the_same_stem", 1)
			if e1 == nil && e2 == nil && rerr0 == nil && (rerr != nil || exactJSON(rs.Spec) != exactJSON(rs0.Spec)) {
				cs.Violation("unreadable", map[string]string{"what": "sibling-written-afterwards"}, fmt.Sprintf("%s was written, then another Spec as %s: %s no longer reads back as written (err=%v)", first, second, first, rerr), nil)
			}
			os.Remove(filepath.Join(sub, first))
			os.Remove(filepath.Join(sub, second))
		}
		// interchangeable encodings: both files loaded to Specs equal to the
		// original (checked above), hence equal to each other; a difference
		// has already been reported against the encoding that is off
		if j, y := loaded["x.json"], loaded["x.yaml"]; j != "" && j == y {
			c.Count("json_yaml_pairs_equal", 1)
		}
		c.Sample(4, map[string]any{"field": field, "class": class, "value": val})
	})
	// "accepted for writing" is what WriteSpec's result says: when the data cannot be
	// written in full (file size limit at offset k, in a child process) a reported
	// success still has to read back equal
	exe, _ := os.Executable()
	c.RunCases("short-write", c.pick(24, 200), 4, func(cs *Case) {
		r := cs.R
		s := genSpec(r, SpecGen{Marker: "sw", Plain: true, Vendor: "vendor.com", Class: "gpu"})
		sub := filepath.Join(dir, sanitize(cs.Name))
		must(os.MkdirAll(filepath.Join(sub, "specs"), 0o755))
		defer os.RemoveAll(sub)
		specFile := filepath.Join(sub, "spec.json")
		b, _ := json.Marshal(s)
		must(os.WriteFile(specFile, b, 0o644))
		name := "sw." + pickStr(r, "json", "yaml")
		full := len(specBytes(s, filepath.Ext(name)[1:]))
		k := []int{0, 1, 7, full / 3, full / 2, full - 1, full + 4096}[r.Intn(7)]
		cmd := exec.Command(exe, "child-c10write", filepath.Join(sub, "specs"), name, specFile, fmt.Sprint(k))
		err := cmd.Run()
		code := 0
		if ee, ok := err.(*exec.ExitError); ok {
			code = ee.ExitCode()
		} else if err != nil {
			c.Inconclusive("exec")
			return
		}
		c.Count("writes_under_a_file_size_limit", 1)
		if code != 0 {
			c.Count("writes_under_a_file_size_limit_reported_as_failed", 1)
			return
		}
		rs, rerr := cdi.ReadSpec(filepath.Join(sub, "specs", name), 0)
		if rerr != nil || exactJSON(rs.Spec) != exactJSON(s) {
			data, _ := os.ReadFile(filepath.Join(sub, "specs", name))
			cs.Violation("unreadable", map[string]string{"field": "short-write", "class": "short-write"}, fmt.Sprintf("WriteSpec reported success with the file size limited to %d bytes, but %s (%d bytes on disk) does not read back equal: %v", k, name, len(data), rerr), map[string]any{"spec": s, "limit": k, "file_content": clip(string(data), 3000)})
		}
	})
	c.Floor("writes_under_a_file_size_limit", 10)
	c.Floor("roundtrips_ok", 1000)
	c.Floor("large_specs", 2)
	c.Floor("catalogue_strings_x_fields", 2000)
}
