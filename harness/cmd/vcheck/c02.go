package main

// C02 — injection is the ordered composition of the selected Specs' and
// devices' edits.  C04 — an unresolvable request leaves the OCI spec untouched
// and names every miss.  Both run on generated caches (G-DIRS, rich edits).

import (
	"encoding/json"
	"fmt"
	"math/rand"
	"os"
	"os/exec"
	"path/filepath"
	"reflect"
	"regexp"
	"sort"
	"strings"
	"syscall"

	oci "github.com/opencontainers/runtime-spec/specs-go"
	"tags.cncf.io/container-device-interface/pkg/cdi"
	specs "tags.cncf.io/container-device-interface/specs-go"
)

func init() {
	register("C02", checkC02)
	register("C04", checkC04)
	registerChild("c02nowatcher", childC02NoWatcher)
}

type c02Batch struct {
	Dirs  []string `json:"dirs"`
	Cases []struct {
		Req []string  `json:"req"`
		OCI *oci.Spec `json:"oci"`
	} `json:"cases"`
}

// childC02NoWatcher: an auto-refresh cache created while no descriptor can be
// opened has no watcher and rescans on every query. It injects every request
// of the batch and prints the resulting OCI specs.
func childC02NoWatcher(args []string) int {
	data, err := os.ReadFile(args[0])
	if err != nil {
		return 2
	}
	var b c02Batch
	if err := json.Unmarshal(data, &b); err != nil {
		return 2
	}
	var lim, old syscall.Rlimit
	syscall.Getrlimit(syscall.RLIMIT_NOFILE, &old)
	lim = old
	lim.Cur = 0
	syscall.Setrlimit(syscall.RLIMIT_NOFILE, &lim)
	cache, _ := cdi.NewCache(cdi.WithSpecDirs(b.Dirs...), cdi.WithAutoRefresh(true))
	syscall.Setrlimit(syscall.RLIMIT_NOFILE, &old)
	hasWatcher := false
	entries, _ := os.ReadDir("/proc/self/fd")
	for _, e := range entries {
		if t, err := os.Readlink("/proc/self/fd/" + e.Name()); err == nil && strings.Contains(t, "inotify") {
			hasWatcher = true
		}
	}
	out := json.NewEncoder(os.Stdout)
	out.Encode(map[string]any{"has_watcher": hasWatcher})
	for _, cse := range b.Cases {
		unres, err := cache.InjectDevices(cse.OCI, cse.Req...)
		res := map[string]any{"oci": cse.OCI, "unresolved": unres}
		if err != nil {
			res["err"] = err.Error()
		}
		out.Encode(res)
	}
	return 0
}

var markerRe = regexp.MustCompile(`(?i)\bM_F(\d+)_(S|D\d+)_|/(?:mnt|hook|dev|host)/f(\d+)-(S|D\d+)`)

// markersIn returns the set of edit markers ("f3-S", "f3-D1") occurring in the JSON text.
func markersIn(text string) map[string]int {
	out := map[string]int{}
	for _, m := range markerRe.FindAllStringSubmatch(text, -1) {
		if m[1] != "" {
			out["f"+m[1]+"-"+strings.ToUpper(m[2])]++
		} else {
			out["f"+m[3]+"-"+strings.ToUpper(m[4])]++
		}
	}
	return out
}

func appendEdits(dst *specs.ContainerEdits, src *specs.ContainerEdits) {
	dst.Env = append(dst.Env, src.Env...)
	dst.DeviceNodes = append(dst.DeviceNodes, src.DeviceNodes...)
	dst.Hooks = append(dst.Hooks, src.Hooks...)
	dst.Mounts = append(dst.Mounts, src.Mounts...)
	if src.IntelRdt != nil {
		dst.IntelRdt = src.IntelRdt
	}
	dst.AdditionalGIDs = append(dst.AdditionalGIDs, src.AdditionalGIDs...)
}

// richCache generates a population with rich edits and loads it.
func richCache(cs *Case, hosts []HostNode) (*Pop, *Resolved, *cdi.Cache, string) {
	c := cs.Ctx
	root := filepath.Join(c.Scratch, sanitize(cs.Name))
	must(os.MkdirAll(root, 0o755))
	var real []HostNode
	for _, h := range hosts {
		if h.Type == "b" || h.Type == "c" || h.Type == "p" {
			real = append(real, h)
		}
	}
	p := genPop(cs.R, root, PopOpt{Rich: true, Hosts: real}).DropTwins() // (C02 rewrites files)
	p.Write()
	// (the caller's directory slice is the caller's: it is reused for something else afterwards)
	o, reuse := withDirs(p.Conf)
	cache, _ := cdi.NewCache(o, cdi.WithAutoRefresh(false))
	reuse()
	return p, p.Resolve(), cache, root
}

func sortedDevs(res *Resolved) []string {
	var devs []string
	for q := range res.Devices {
		devs = append(devs, q)
	}
	sort.Strings(devs)
	return devs
}

func checkC02(c *Ctx) {
	c.Rule = "seeded caches (1-4 directories, several files/devices per file, shadowing, conflicts; edits of every kind incl. device nodes resolved from harness-created host nodes) x initial OCI specs x 3-6 ordered selections of distinct resolvable devices injected one after the other into the SAME cache, with refused requests (resolvable devices mixed with an unknown one, nil OCI spec) and queries in between; oracle = the combined edit list built by the harness from the generator's data, applied with ContainerEdits.Apply to a copy, plus a marker scan (no edit of an unrequested device, shadowed definition or uninvolved file; spec-level markers of involved files exactly once); distinct_nontrivial = distinct (number of files involved, interleaving pattern of files in the request, spec-level edits present) with >=2 devices requested"
	c.Assume("equality is relative to ContainerEdits.Apply (whose own semantics are C03's job)", "M-RESOLVE decides which file a device resolves to")
	hosts, err := makeHostNodes(filepath.Join(c.Scratch, "hostdev"))
	if err != nil {
		c.HarnessError("mknod: %v", err)
		return
	}
	c.RunCases("gen", c.pick(1500, 40000), 0, func(cs *Case) {
		r := cs.R
		p, res, cache, root := richCache(cs, hosts)
		defer os.RemoveAll(root)
		devs := sortedDevs(res)
		if len(devs) == 0 {
			c.Count("populations_without_devices", 1)
			return
		}
		rounds := 3 + r.Intn(4)
		var nwReq [][]string
		var nwInit []*oci.Spec
		var nwWant []string
		defer func() {
			// one population in eight: the same requests through an auto-refresh cache
			// that has no watcher (it rescans on every query), in a child process
			if len(nwReq) == 0 || cs.R.Intn(8) != 0 {
				return
			}
			var b c02Batch
			b.Dirs = p.Conf
			for i := range nwReq {
				b.Cases = append(b.Cases, struct {
					Req []string  `json:"req"`
					OCI *oci.Spec `json:"oci"`
				}{nwReq[i], nwInit[i]})
			}
			bf := filepath.Join(root, "batch.json")
			data, _ := json.Marshal(b)
			must(os.WriteFile(bf, data, 0o644))
			exe, _ := os.Executable()
			out, err := exec.Command(exe, "child-c02nowatcher", bf).Output()
			lines := strings.Split(strings.TrimSpace(string(out)), "\n")
			if err != nil || len(lines) != len(nwReq)+1 {
				cs.Violation("no-watcher-child", nil, fmt.Sprintf("the process with a watcher-less auto-refresh cache failed: %v (%d lines)", err, len(lines)), nil)
				return
			}
			if strings.Contains(lines[0], "true") {
				c.Count("no_watcher_children_that_had_a_watcher", 1)
				return
			}
			for i, line := range lines[1:] {
				var res struct {
					OCI *oci.Spec `json:"oci"`
					Err string    `json:"err"`
				}
				json.Unmarshal([]byte(line), &res)
				c.Count("injections_without_watcher", 1)
				if res.Err != "" || normJSON(res.OCI) != nwWant[i] {
					cs.Violation("composition", map[string]string{"mode": "auto-refresh without watcher"}, fmt.Sprintf("InjectDevices(%v) on an auto-refresh cache without a watcher (rescans on every query) differs from applying the combined edit list (err=%q)\n got  %s\n want %s", nwReq[i], res.Err, normJSON(res.OCI), nwWant[i]), map[string]any{"population": p.Describe(), "request": nwReq[i]})
					return
				}
			}
		}()
		hotFile := ""
		for round := 0; round < rounds; round++ {
			if round > 0 && chance(r, 35) {
				// a device is plugged in: one Spec file is written again with one more device,
				// everything else in it unchanged, and the cache is refreshed. Devices old and
				// new of that file are one file's devices (its Spec-level edits come once)
				var cands []*PFile
				for _, f := range p.Files {
					if f.Kind == "valid" && f.specNamed() && f.Spec != nil && len(f.Spec.Devices) > 0 {
						cands = append(cands, f)
					}
				}
				if len(cands) > 0 {
					f := cands[r.Intn(len(cands))]
					n := len(f.Spec.Devices)
					f.Spec.Devices = append(f.Spec.Devices, specs.Device{Name: fmt.Sprintf("hot%d", round),
						ContainerEdits: genEdits(r, &SpecGen{Plain: true, Marker: f.Marker}, fmt.Sprintf("%s-D%d", f.Marker, n), true)})
					f.Content = specBytes(f.Spec, f.Enc)
					p.writeFile(f)
					if err := cache.Refresh(); err != nil && len(res.ErrPaths) == 0 && len(res.Conflicts) == 0 {
						cs.Violation("refresh-failed", nil, fmt.Sprintf("Refresh() after adding a device to %s fails: %v", p.path(f), err), map[string]any{"population": p.Describe()})
						return
					}
					res = p.Resolve()
					devs = sortedDevs(res)
					c.Count("devices_plugged_in_between_injections", 1)
					// the next request takes old and new devices of that file together
					hotFile = p.path(f)
				}
			}
			k := 1 + r.Intn(len(devs))
			if k > 6 {
				k = 6
			}
			perm := r.Perm(len(devs))[:k]
			var req []string
			for _, i := range perm {
				req = append(req, devs[i])
			}
			if hotFile != "" {
				// every device the cache resolves to the rewritten file, in shuffled order, first
				var hot []string
				inReq := map[string]bool{}
				for _, q := range devs {
					if res.Devices[q].Path == hotFile {
						hot = append(hot, q)
						inReq[q] = true
					}
				}
				r.Shuffle(len(hot), func(i, j int) { hot[i], hot[j] = hot[j], hot[i] })
				for _, q := range req {
					if !inReq[q] {
						hot = append(hot, q)
					}
				}
				req, hotFile = hot, ""
				if len(req) > 8 {
					req = req[:8]
				}
				c.Count("requests_mixing_old_and_new_devices_of_a_rewritten_file", 1)
			}
			initial := genOCI(r)
			// expected combined edits
			var combined specs.ContainerEdits
			met := map[string]bool{}
			allowed := map[string]bool{}
			var pattern []string
			fileIdx := map[string]int{}
			specLevel := false
			for _, q := range req {
				w := res.Devices[q]
				if !met[w.Path] {
					met[w.Path] = true
					fileIdx[w.Path] = len(fileIdx)
					appendEdits(&combined, &cloneSpec(w.File.Spec).ContainerEdits)
					allowed[w.File.Marker+"-S"] = true
					if !editsEmpty(&w.File.Spec.ContainerEdits) {
						specLevel = true
					}
				}
				pattern = append(pattern, fmt.Sprint(fileIdx[w.Path]))
				dev := cloneSpec(&specs.Spec{Devices: []specs.Device{w.Dev}}).Devices[0]
				appendEdits(&combined, &dev.ContainerEdits)
				for i, d := range w.File.Spec.Devices {
					if d.Name == w.Dev.Name {
						allowed[fmt.Sprintf("%s-D%d", w.File.Marker, i)] = true
					}
				}
			}
			want := cloneOCI(initial)
			got := cloneOCI(initial)
			wit := func() map[string]any {
				return map[string]any{"population": p.Describe(), "request": req, "round": round, "initial_oci": initial, "expected_combined_edits": combined, "expected_oci": want, "injected_oci": got}
			}
			if err := (&cdi.ContainerEdits{ContainerEdits: &combined}).Apply(want); err != nil {
				cs.Violation("reference-apply-failed", nil, fmt.Sprintf("applying the combined edit list fails: %v", err), wit())
				return
			}
			// what the cache was asked before must not matter: now and then a refused
			// request (resolvable devices mixed with an unknown one, or a nil OCI spec)
			// or a few queries go first
			if chance(r, 40) {
				var other []string
				for _, i := range r.Perm(len(devs))[:1+r.Intn(min(len(devs), 4))] {
					other = append(other, devs[i])
				}
				kind := r.Intn(4)
				if pv, st := guard(func() {
					switch kind {
					case 0, 1:
						bad := append(append([]string{}, other...), "unknown.org/dev=none")
						r.Shuffle(len(bad), func(i, j int) { bad[i], bad[j] = bad[j], bad[i] })
						cache.InjectDevices(genOCI(r), bad...)
						c.Count("refused_requests_before_an_injection", 1)
					case 2:
						cache.InjectDevices(nil, other...)
						c.Count("nil_spec_requests_before_an_injection", 1)
					default:
						for _, q := range other {
							cache.GetDevice(q)
						}
						cache.ListDevices()
					}
				}); pv != nil {
					cs.Violation("panic", nil, fmt.Sprintf("a request before the injection panics: %v", pv), map[string]any{"w": wit(), "stack": st})
					return
				}
			}
			var unres []string
			var ierr error
			if pv, st := guard(func() { unres, ierr = cache.InjectDevices(got, req...) }); pv != nil {
				cs.Violation("panic", nil, fmt.Sprintf("InjectDevices panics: %v", pv), map[string]any{"w": wit(), "stack": st})
				return
			}
			if ierr != nil || len(unres) > 0 {
				cs.Violation("inject-failed", nil, fmt.Sprintf("InjectDevices(%v) fails although every device resolves: unresolved=%v err=%v", req, unres, ierr), wit())
				return
			}
			c.Count("injections", 1)
			if len(req) >= 2 {
				c.Distinct(fmt.Sprintf("%d|%s|%v", len(met), strings.Join(pattern, ""), specLevel))
				if len(met) >= 2 {
					c.Count("requests_spanning_2+_files", 1)
				}
				if len(met) < len(req) {
					c.Count("requests_with_2+_devices_of_one_file", 1)
				}
			}
			if round > 0 {
				c.Count("injections_into_already_used_cache", 1)
			}
			// what no edit ever touches is, byte for byte, what it was
			{
				args := func(o *oci.Spec) []string {
					if o.Process == nil {
						return nil
					}
					return o.Process.Args
				}
				if !reflect.DeepEqual(args(got), args(initial)) || got.Hostname != initial.Hostname || !reflect.DeepEqual(got.Annotations, initial.Annotations) || !reflect.DeepEqual(got.Root, initial.Root) || got.Version != initial.Version {
					cs.Violation("untouched-part-modified", nil, fmt.Sprintf("InjectDevices(%v) changed a part of the OCI spec that no edit touches: args %q -> %q, hostname %q -> %q, annotations %q -> %q", req, args(initial), args(got), initial.Hostname, got.Hostname, initial.Annotations, got.Annotations), wit())
					return
				}
			}
			if g, w := normJSON(got), normJSON(want); g != w {
				cs.Violation("composition", map[string]string{"round": fmt.Sprint(round)}, fmt.Sprintf("InjectDevices(%v) differs from applying the combined edit list (round %d on this cache)\n got  %s\n want %s", req, round, g, w), wit())
				return
			}
			// marker scan
			gb, _ := json.Marshal(got)
			found := markersIn(string(gb))
			for m := range found {
				if !allowed[m] {
					cs.Violation("foreign-edit", nil, fmt.Sprintf("edit marker %s appears in the result of InjectDevices(%v) but belongs to a device/Spec that was not requested or is shadowed", m, req), wit())
					return
				}
			}
			// spec-level env markers exactly once
			if got.Process != nil {
				cnt := map[string]int{}
				for _, e := range got.Process.Env {
					if strings.Contains(e, "_S_") {
						cnt[envName(e)]++
					}
				}
				for n, k := range cnt {
					if k != 1 {
						cs.Violation("spec-edits-repeated", nil, fmt.Sprintf("spec-level variable %s occurs %d times in the result", n, k), wit())
						return
					}
				}
			}
			if round == 0 {
				c.Sample(3, map[string]any{"configured_dirs": p.Conf, "request": req, "files_involved": len(met), "markers_found": found})
			}
			nwReq = append(nwReq, req)
			nwInit = append(nwInit, cloneOCI(initial))
			nwWant = append(nwWant, normJSON(want))
		}
	})
	// a rescan that is due although no event announces it: the highest-priority
	// directory is missing when the auto-refresh cache is created and appears later,
	// populated (renamed into place); the very next thing asked of the cache is the
	// injection, of devices that (mostly) resolved in the old content as well
	c.RunCases("late", c.pick(150, 3000), 4, func(cs *Case) {
		r := cs.R
		root := filepath.Join(c.Scratch, sanitize(cs.Name))
		must(os.MkdirAll(root, 0o755))
		defer os.RemoveAll(root)
		var real []HostNode
		for _, h := range hosts {
			if h.Type == "b" || h.Type == "c" || h.Type == "p" {
				real = append(real, h)
			}
		}
		p := genPop(r, root, PopOpt{Rich: true, Hosts: real})
		anchor := filepath.Join(root, "anchor")
		p.Phys = append(p.Phys, anchor)
		p.Exists = append(p.Exists, true)
		p.Conf = append([]string{anchor}, p.Conf...)
		p.ConfPhys = append([]int{len(p.Phys) - 1}, p.ConfPhys...)
		p.Protect = len(p.Phys) - 1
		p.Write()
		hi := p.ConfPhys[len(p.ConfPhys)-1]
		if !p.Exists[hi] || hi == p.Protect {
			c.Count("late_cases_without_a_late_directory", 1)
			return
		}
		res := p.Resolve()
		old := clonePop(p)
		old.Exists[hi] = false
		var keep []*PFile
		for _, f := range old.Files {
			if f.Phys != hi {
				keep = append(keep, f)
			}
		}
		old.Files = keep
		resOld := old.Resolve()
		var both, all []string
		for q := range res.Devices {
			all = append(all, q)
			if _, ok := resOld.Devices[q]; ok {
				both = append(both, q)
			}
		}
		sort.Strings(both)
		sort.Strings(all)
		if len(both) == 0 {
			c.Count("late_cases_without_a_device_in_both_contents", 1)
			return
		}
		staged := p.Phys[hi] + ".staged"
		must(os.Rename(p.Phys[hi], staged))
		a, err := newAutoCache(root, anchor, p.Conf)
		if err != nil {
			os.Rename(staged, p.Phys[hi])
			c.Inconclusive("no-inotify")
			return
		}
		defer a.Close()
		a.C.ListDevices()
		must(os.Rename(staged, p.Phys[hi]))
		var req []string
		for _, i := range r.Perm(len(both))[:1+r.Intn(min(len(both), 4))] {
			req = append(req, both[i])
		}
		if chance(r, 30) {
			q := all[r.Intn(len(all))]
			dup := false
			for _, x := range req {
				dup = dup || x == q
			}
			if !dup {
				req = append(req, q)
			}
		}
		var combined specs.ContainerEdits
		met := map[string]bool{}
		shadowChanged := false
		for _, q := range req {
			w := res.Devices[q]
			if o := resOld.Devices[q]; o == nil || o.Path != w.Path {
				shadowChanged = true
			}
			if !met[w.Path] {
				met[w.Path] = true
				appendEdits(&combined, &cloneSpec(w.File.Spec).ContainerEdits)
			}
			dev := cloneSpec(&specs.Spec{Devices: []specs.Device{w.Dev}}).Devices[0]
			appendEdits(&combined, &dev.ContainerEdits)
		}
		initial := genOCI(r)
		want, got := cloneOCI(initial), cloneOCI(initial)
		if err := (&cdi.ContainerEdits{ContainerEdits: &combined}).Apply(want); err != nil {
			return
		}
		unres, ierr := a.C.InjectDevices(got, req...)
		c.Count("injections_right_after_a_directory_appeared", 1)
		if shadowChanged {
			c.Count("injections_whose_devices_moved_to_the_new_directory", 1)
		}
		c.Distinct(fmt.Sprintf("late|%d|%v", len(req), shadowChanged))
		if ierr != nil || len(unres) > 0 || exactJSON(got) != exactJSON(want) {
			cs.Violation("composition", map[string]string{"mode": "directory appeared since the last query"}, fmt.Sprintf("the highest-priority directory %s appeared (populated) after the last query; InjectDevices(%v) as the next query differs from the combined edit list of the present content (unresolved=%v err=%v)\n got  %s\n want %s", p.Phys[hi], req, unres, ierr, clip(normJSON(got), 1500), clip(normJSON(want), 1500)), map[string]any{"population": p.Describe(), "request": req, "late_directory": p.Phys[hi]})
		}
	})
	c.Floor("injections_whose_devices_moved_to_the_new_directory", 10)
	// the directory list of a live auto-refresh cache is replaced by a permutation of
	// itself (no file changes, no events): the very next injection follows the new order
	c.RunCases("reorder", c.pick(150, 3000), 4, func(cs *Case) {
		r := cs.R
		root := filepath.Join(c.Scratch, sanitize(cs.Name))
		must(os.MkdirAll(root, 0o755))
		defer os.RemoveAll(root)
		var real []HostNode
		for _, h := range hosts {
			if h.Type == "b" || h.Type == "c" || h.Type == "p" {
				real = append(real, h)
			}
		}
		p := genPop(r, root, PopOpt{Rich: true, Hosts: real})
		anchor := filepath.Join(root, "anchor")
		p.Phys = append(p.Phys, anchor)
		p.Exists = append(p.Exists, true)
		p.Conf = append([]string{anchor}, p.Conf...)
		p.ConfPhys = append([]int{len(p.Phys) - 1}, p.ConfPhys...)
		p.Protect = len(p.Phys) - 1
		p.Write()
		before := p.Resolve()
		a, err := newAutoCache(root, anchor, p.Conf)
		if err != nil {
			c.Inconclusive("no-inotify")
			return
		}
		defer a.Close()
		a.C.ListDevices()
		how := p.Relist(r, p.Protect)
		o, reuse := withDirs(p.Conf)
		a.C.Configure(o)
		reuse()
		res := p.Resolve()
		var moved, all []string
		for q, w := range res.Devices {
			all = append(all, q)
			if b := before.Devices[q]; b == nil || b.Path != w.Path {
				moved = append(moved, q)
			}
		}
		sort.Strings(moved)
		sort.Strings(all)
		if len(all) == 0 {
			return
		}
		req := moved
		if len(req) > 3 {
			req = req[:3]
		}
		if len(req) == 0 || chance(r, 30) {
			req = append(req, all[r.Intn(len(all))])
			if len(req) == 2 && req[0] == req[1] {
				req = req[:1]
			}
		}
		var combined specs.ContainerEdits
		met := map[string]bool{}
		for _, q := range req {
			w := res.Devices[q]
			if !met[w.Path] {
				met[w.Path] = true
				appendEdits(&combined, &cloneSpec(w.File.Spec).ContainerEdits)
			}
			dev := cloneSpec(&specs.Spec{Devices: []specs.Device{w.Dev}}).Devices[0]
			appendEdits(&combined, &dev.ContainerEdits)
		}
		initial := genOCI(r)
		want, got := cloneOCI(initial), cloneOCI(initial)
		if err := (&cdi.ContainerEdits{ContainerEdits: &combined}).Apply(want); err != nil {
			return
		}
		unres, ierr := a.C.InjectDevices(got, req...)
		c.Count("injections_right_after_a_reordering", 1)
		if len(moved) > 0 {
			c.Count("injections_whose_devices_change_file_with_the_order", 1)
		}
		c.Distinct(fmt.Sprintf("reorder|%d|%v", len(req), len(moved) > 0))
		if ierr != nil || len(unres) > 0 || exactJSON(got) != exactJSON(want) {
			cs.Violation("composition", map[string]string{"mode": "directory list reordered"}, fmt.Sprintf("after %s, InjectDevices(%v) as the next query differs from the combined edit list under the new order (unresolved=%v err=%v)\n got  %s\n want %s", how, req, unres, ierr, clip(normJSON(got), 1500), clip(normJSON(want), 1500)), map[string]any{"population": p.Describe(), "request": req})
		}
	})
	c.Floor("injections_whose_devices_change_file_with_the_order", 10)
	c.Floor("requests_spanning_2+_files", 50)
	c.Floor("requests_with_2+_devices_of_one_file", 50)
	c.Floor("injections_into_already_used_cache", 50)
	c.Floor("injections_without_watcher", 50)
	c.Floor("refused_requests_before_an_injection", 50)
}

var c04BadNames = []string{"", "nodev", "vendor.com/gpu", "vendor.com/gpu=", "=x", "vendor.com/gpu=dev0 ", " vendor.com/gpu=dev0", "vendor.com/gpu=dev9", "nope.io/net=dev0", "a/b=c", "vendor.com/gpu=dev0,vendor.com/gpu=dev1", "VENDOR.COM/gpu=dev0", "vendor.com/gpu=dev0\x00", "vendor.com//gpu=dev0", "é/ü=ö"}

func checkC04(c *Ctx) {
	c.Rule = "seeded caches (as C02) x initial OCI specs (nil sections and populated ones) x request lists mixing resolvable names with unknown, syntactically invalid, conflict-removed and repeated names; oracle: misses = requested names M-RESOLVE does not resolve, in request order with repetitions; OCI spec DeepEqual and byte-identical JSON to a copy taken before; nil spec => error and the whole request returned; plus requests for two devices that are never defined at the same time while the Spec file flips between them under concurrent refreshes (must always fail, spec untouched); distinct_nontrivial = distinct (resolvable/unresolvable pattern of the request, which OCI sections are non-nil) with both kinds present"
	c.Assume("M-RESOLVE decides resolvability")
	hosts, err := makeHostNodes(filepath.Join(c.Scratch, "hostdev"))
	if err != nil {
		c.HarnessError("mknod: %v", err)
		return
	}
	// auto-refresh caches that got no watcher (created while the process cannot open a
	// descriptor; first thing, while nothing else here opens files): every query has to
	// look at the directories itself. A device whose file went away since the last
	// query is a miss for the very next request, whatever that request asks for
	nnw := c.pick(16, 200)
	nwDirs := make([]string, nnw)
	nwCaches := make([]*cdi.Cache, nnw)
	{
		for i := range nwDirs {
			nwDirs[i] = filepath.Join(c.Scratch, fmt.Sprintf("nowatcher_%d", i), "d")
			must(os.MkdirAll(nwDirs[i], 0o755))
		}
		var old syscall.Rlimit
		must(syscall.Getrlimit(syscall.RLIMIT_NOFILE, &old))
		lim := old
		lim.Cur = 0
		must(syscall.Setrlimit(syscall.RLIMIT_NOFILE, &lim))
		for i := range nwCaches {
			nwCaches[i], _ = cdi.NewCache(cdi.WithSpecDirs(nwDirs[i]), cdi.WithAutoRefresh(true))
		}
		must(syscall.Setrlimit(syscall.RLIMIT_NOFILE, &old))
	}
	c.RunCases("nowatcher", nnw, 4, func(cs *Case) {
		var i int
		fmt.Sscanf(cs.Name, "nowatcher:%d", &i)
		r, dir, cache := cs.R, nwDirs[i], nwCaches[i]
		defer os.RemoveAll(filepath.Dir(dir))
		if !watcherMissing(cache) {
			c.Count("nowatcher_caches_that_had_a_watcher", 1)
			return
		}
		mk := func(kind, dev string) []byte {
			return []byte(fmt.Sprintf(`{"cdiVersion":"0.6.0","kind":"%s","devices":[{"name":"%s","containerEdits":{"env":["DEV_%s=1"]}}]}`, kind, dev, dev))
		}
		fa, fb := filepath.Join(dir, "a.json"), filepath.Join(dir, "b.yaml")
		must(os.WriteFile(fa, mk("stale.org/dev", "a"), 0o644))
		must(os.WriteFile(fb, mk("stale.org/dev", "b"), 0o644))
		all := []string{"stale.org/dev=a", "stale.org/dev=b"}
		if u, err := cache.InjectDevices(&oci.Spec{}, all...); err != nil {
			cs.Violation("inject-failed", nil, fmt.Sprintf("InjectDevices(%v) on a watcher-less auto-refresh cache fails although both files are there: %v %v", all, u, err), nil)
			return
		}
		for round := 0; round < 3; round++ {
			// b goes away (removed, renamed to a non-Spec name, or rewritten to define something else)
			how := pickStr(r, "removed", "renamed away", "rewritten")
			switch how {
			case "removed":
				must(os.Remove(fb))
			case "renamed away":
				must(os.Rename(fb, fb+".bak"))
			default:
				must(os.WriteFile(fb, mk("stale.org/dev", "other"), 0o644))
			}
			req := [][]string{{"stale.org/dev=b"}, {"stale.org/dev=a", "stale.org/dev=b"}, {"stale.org/dev=b", "stale.org/dev=a", "stale.org/dev=b"}}[r.Intn(3)]
			spec := &oci.Spec{Process: &oci.Process{Env: []string{"KEEP=1"}}}
			unres, err := cache.InjectDevices(spec, req...)
			c.Count("first_requests_after_a_device_went_away", 1)
			var want []string
			for _, q := range req {
				if q == "stale.org/dev=b" {
					want = append(want, q)
				}
			}
			if err == nil || !reflect.DeepEqual(unres, want) || len(spec.Process.Env) != 1 {
				cs.Violation("stale-table", map[string]string{"how": how}, fmt.Sprintf("the file defining stale.org/dev=b was %s; the next thing asked of the watcher-less auto-refresh cache is InjectDevices(%v): unresolved %v, err %v, env %v (expected a refusal naming %v and an untouched OCI spec)", how, req, unres, err, spec.Process.Env, want), nil)
				return
			}
			// back again for the next round
			os.Remove(fb + ".bak")
			must(os.WriteFile(fb, mk("stale.org/dev", "b"), 0o644))
			if u, err := cache.InjectDevices(&oci.Spec{}, all...); err != nil {
				cs.Violation("inject-failed", nil, fmt.Sprintf("InjectDevices(%v) fails after the file came back: %v %v", all, u, err), nil)
				return
			}
		}
	})
	c.RunCases("gen", c.pick(1500, 40000), 0, func(cs *Case) {
		r := cs.R
		p, res, cache, root := richCache(cs, hosts)
		defer os.RemoveAll(root)
		devs := sortedDevs(res)
		// what earlier refused requests returned belongs to their callers: it stays as it was
		type held struct {
			got  []string
			copy []string
		}
		var earlier []held
		// a device that resolves but whose edits cannot be applied (its node names no type
		// and the host path does not exist): in a request that has misses anyway it is
		// just another resolvable name
		failing := ""
		if chance(r, 25) {
			for i, d := range p.Phys {
				if p.Exists[i] {
					must(os.WriteFile(filepath.Join(d, "zz-apply-fails.json"), []byte(`{"cdiVersion":"0.6.0","kind":"failing.org/dev","devices":[{"name":"gone","containerEdits":{"deviceNodes":[{"path":"/dev/verif-no-such-host-node"}]}}]}`), 0o644))
					cache.Refresh()
					failing = "failing.org/dev=gone"
					devs = append(devs, failing, failing)
					c.Count("caches_with_a_device_that_fails_at_apply_time", 1)
					break
				}
			}
		}
		// names that some file defines but that do not resolve (conflict at the top)
		var removed []string
		for _, f := range p.Files {
			if f.Kind == "valid" && f.specNamed() {
				for _, d := range f.Spec.Devices {
					q := f.Spec.Kind + "=" + d.Name
					if _, ok := res.Devices[q]; !ok {
						removed = append(removed, q)
					}
				}
			}
		}
		for round := 0; round < 4; round++ {
			var req []string
			n := 1 + r.Intn(6)
			switch k := r.Intn(20); {
			case k < 3: // long requests: the miss list has no length at which it may be cut or summarised
				n = 7 + r.Intn(34)
			case k == 3:
				n = 60 + r.Intn(240)
			}
			if n > 10 {
				c.Count("requests_with_more_than_10_names", 1)
			}
			for i := 0; i < n; i++ {
				switch k := r.Intn(10); {
				case k < 4 && len(devs) > 0:
					req = append(req, devs[r.Intn(len(devs))])
				case k < 6 && len(removed) > 0:
					req = append(req, removed[r.Intn(len(removed))])
				case k < 7 && len(req) > 0:
					req = append(req, req[r.Intn(len(req))]) // repetition
				default:
					req = append(req, c04BadNames[r.Intn(len(c04BadNames))])
				}
			}
			var want []string
			pattern := ""
			for _, q := range req {
				if _, ok := res.Devices[q]; !ok && (failing == "" || q != failing) {
					want = append(want, q)
					pattern += "u"
				} else {
					pattern += "r"
				}
			}
			if len(want) == 0 {
				continue // fully resolvable requests are C02's business
			}
			spec := genOCI(r)
			before := cloneOCI(spec)
			beforeJSON, _ := json.Marshal(spec)
			wit := func() map[string]any {
				return map[string]any{"population": p.Describe(), "request": req, "expected_unresolved": want, "oci_before": before, "oci_after": spec}
			}
			var unres []string
			var ierr error
			asked := append([]string{}, req...)
			if pv, st := guard(func() { unres, ierr = cache.InjectDevices(spec, req...) }); pv != nil {
				cs.Violation("panic", nil, fmt.Sprintf("InjectDevices panics: %v", pv), map[string]any{"w": wit(), "stack": st})
				return
			}
			c.Count("failing_requests", 1)
			if !reflect.DeepEqual(req, asked) {
				cs.Violation("request-modified", nil, fmt.Sprintf("a refused InjectDevices changed the caller's list of device names from %q to %q", asked, req), wit())
				return
			}
			mixed := strings.Contains(pattern, "r")
			if mixed {
				c.Count("mixed_requests", 1)
				if spec.Process != nil || spec.Linux != nil || spec.Hooks != nil || len(spec.Mounts) > 0 {
					c.Count("mixed_requests_on_populated_oci", 1)
				}
				c.Distinct(fmt.Sprintf("%s|%v%v%v%v", pattern[:min(len(pattern), 12)], spec.Process != nil, spec.Linux != nil, spec.Hooks != nil, len(spec.Mounts) > 0))
			}
			if ierr == nil {
				cs.Violation("no-error", nil, fmt.Sprintf("InjectDevices(%q) returns no error although %q do not resolve", req, want), wit())
				return
			}
			if !reflect.DeepEqual(unres, want) {
				cs.Violation("misses", nil, fmt.Sprintf("InjectDevices(%q) reports unresolved %q, expected %q", req, unres, want), wit())
				return
			}
			for _, h := range earlier {
				if !reflect.DeepEqual(h.got, h.copy) {
					cs.Violation("misses", map[string]string{"what": "earlier-result-modified"}, fmt.Sprintf("the list of unresolved names an earlier refused request returned (%q) reads %q after InjectDevices(%q)", h.copy, h.got, req), wit())
					return
				}
			}
			earlier = append(earlier, held{unres, append([]string{}, unres...)})
			afterJSON, _ := json.Marshal(spec)
			if !reflect.DeepEqual(spec, before) || string(afterJSON) != string(beforeJSON) {
				cs.Violation("spec-modified", map[string]string{"mixed": fmt.Sprint(mixed)}, fmt.Sprintf("the OCI spec was modified by a failing InjectDevices(%q)\n before %s\n after  %s", req, beforeJSON, afterJSON), wit())
				return
			}
			if round == 0 {
				c.Sample(3, map[string]any{"request": req, "expected_unresolved": want, "error": ierr.Error()})
			}
		}
		// the cache told to use no directories at all: nothing resolves any more, whatever it
		// had loaded (asked on a copy of the cache's configuration: a second cache object)
		if chance(r, 20) && len(devs) > 0 {
			emptied, _ := cdi.NewCache(cdi.WithSpecDirs(p.Conf...), cdi.WithAutoRefresh(chance(r, 50)))
			emptied.ListDevices()
			emptied.Configure(cdi.WithSpecDirs())
			defer releaseCache(emptied)
			req := append([]string{}, devs[:min(len(devs), 3)]...)
			spec := genOCI(r)
			beforeJSON, _ := json.Marshal(spec)
			unres, ierr := emptied.InjectDevices(spec, req...)
			afterJSON, _ := json.Marshal(spec)
			c.Count("requests_to_a_cache_reconfigured_to_no_directories", 1)
			if ierr == nil || !reflect.DeepEqual(unres, req) || string(beforeJSON) != string(afterJSON) || len(emptied.ListDevices()) > 0 {
				cs.Violation("misses", map[string]string{"what": "no-directories"}, fmt.Sprintf("after Configure(WithSpecDirs()) (no directories) InjectDevices(%q) = %q, %v; ListDevices = %v (expected every name unresolved, an untouched OCI spec and no devices)", req, unres, ierr, emptied.ListDevices()), map[string]any{"population": p.Describe()})
				return
			}
		}
		// nil OCI spec
		req := []string{"vendor.com/gpu=dev0", "x"}
		if len(devs) > 0 {
			req = append(req, devs[0])
		}
		for i := r.Intn(3) * r.Intn(20); i > 0; i-- {
			req = append(req, pickStr(r, append(append([]string{}, devs...), c04BadNames...)...))
		}
		var unres []string
		var ierr error
		if pv, st := guard(func() { unres, ierr = cache.InjectDevices(nil, req...) }); pv != nil {
			cs.Violation("panic", nil, fmt.Sprintf("InjectDevices(nil) panics: %v", pv), map[string]any{"stack": st})
			return
		}
		c.Count("nil_spec_requests", 1)
		// (nothing requested, a spec given: nothing to refuse, nothing to change)
		{
			sp := genOCI(r)
			bj, _ := json.Marshal(sp)
			u2, e2 := cache.InjectDevices(sp)
			aj, _ := json.Marshal(sp)
			if e2 != nil || len(u2) != 0 || string(bj) != string(aj) {
				cs.Violation("empty-request", nil, fmt.Sprintf("InjectDevices(spec) with an empty request = %q, %v (spec changed: %v)", u2, e2, string(bj) != string(aj)), nil)
			}
		}
		// (a nil OCI spec is refused whatever the request, the empty one included)
		if u0, e0 := cache.InjectDevices(nil); e0 == nil || len(u0) != 0 {
			cs.Violation("nil-spec", nil, fmt.Sprintf("InjectDevices(nil) with an empty request = %q, %v; expected an error and no names", u0, e0), nil)
		}
		if u1, e1 := cache.InjectDevices(nil, []string{}...); e1 == nil || len(u1) != 0 {
			cs.Violation("nil-spec", nil, fmt.Sprintf("InjectDevices(nil, []string{}...) = %q, %v; expected an error and no names", u1, e1), nil)
		}
		if ierr == nil || !reflect.DeepEqual(unres, req) {
			cs.Violation("nil-spec", nil, fmt.Sprintf("InjectDevices(nil, %q) = %q, %v; expected an error and the whole request", req, unres, ierr), nil)
		}
	})
	// the same contract while the cache content flips underneath the request: a
	// Spec file alternates between "a only" and "b only"; a request for both is
	// unresolvable in every content the cache ever has
	c.RunCases("flip", c.pick(16, 40), 0, func(cs *Case) {
		root := filepath.Join(c.Scratch, sanitize(cs.Name))
		must(os.MkdirAll(root, 0o755))
		defer os.RemoveAll(root)
		mk := func(dev string) []byte {
			return []byte(fmt.Sprintf(`{"cdiVersion":"0.6.0","kind":"flip.org/dev","devices":[{"name":"%s","containerEdits":{"env":["FLIP_%s=1"]}}]}`, dev, dev))
		}
		target := filepath.Join(root, "flip.json")
		must(os.WriteFile(target, mk("a"), 0o644))
		auto := cs.R.Intn(2) == 0
		cache, _ := cdi.NewCache(cdi.WithSpecDirs(root), cdi.WithAutoRefresh(auto))
		defer releaseCache(cache)
		stop := make(chan struct{})
		done := make(chan struct{})
		go func() {
			defer close(done)
			for i := 0; ; i++ {
				select {
				case <-stop:
					return
				default:
				}
				tmp := filepath.Join(root, "stage.tmp")
				os.WriteFile(tmp, mk([]string{"a", "b"}[i%2]), 0o644)
				os.Rename(tmp, target)
				if !auto {
					cache.Refresh()
				}
			}
		}()
		// (one of the two names several times first: the lookups of one request then span
		// more time, and a refresh anywhere in between shows)
		req := []string{"flip.org/dev=a", "flip.org/dev=b"}
		if cs.R.Intn(3) > 0 {
			first, last := "flip.org/dev=a", "flip.org/dev=b"
			if cs.R.Intn(2) == 0 {
				first, last = last, first
			}
			req = nil
			for k := 0; k < 3+cs.R.Intn(6); k++ {
				req = append(req, first)
			}
			req = append(req, last)
		}
		for i := 0; i < c.pick(8000, 20000); i++ {
			spec := &oci.Spec{Process: &oci.Process{Env: []string{"KEEP=1"}}}
			unres, err := cache.InjectDevices(spec, req...)
			c.Count("flip_requests", 1)
			if err == nil || len(unres) == 0 || len(spec.Process.Env) != 1 {
				cs.Violation("flip-accepted", map[string]string{"auto": fmt.Sprint(auto)}, fmt.Sprintf("InjectDevices(%v) = %v, %v with env %v although no content of the cache ever defines both devices (a refresh landed between the lookups of one request)", req, unres, err, spec.Process.Env), nil)
				break
			}
		}
		close(stop)
		<-done
	})
	c.Floor("mixed_requests_on_populated_oci", 100)
	c.Floor("nil_spec_requests", 100)
	c.Floor("requests_with_more_than_10_names", 100)
	c.Floor("flip_requests", 1000)
}

var _ = rand.Int
var _ oci.Spec
