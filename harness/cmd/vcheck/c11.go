package main

// C11 — with auto-refresh the cache converges to the directory contents by
// itself. "Soon" is restated as bounded progress: after the history has ended
// and the watcher has logically drained (sentinel, DESIGN 2.4), at most two
// rounds of queries later the cache equals a freshly built one.

import (
	"fmt"
	"math/rand"
	"os"
	"path/filepath"
	"regexp"
	"runtime"
	"sort"
	"strings"
	"sync"
	"sync/atomic"
	"syscall"
	"time"

	oci "github.com/opencontainers/runtime-spec/specs-go"
	"tags.cncf.io/container-device-interface/pkg/cdi"
	specs "tags.cncf.io/container-device-interface/specs-go"
)

func init() { register("C11", checkC11) }

type c11World struct {
	mu      sync.Mutex // operations run from the test goroutine and, armed, from inside a scan
	r       *rand.Rand
	root    string
	dirs    []string // configured Spec directories (without the anchor)
	staging string
	n       int
}

func (w *c11World) content(valid bool) []byte {
	w.n++
	if !valid {
		return []byte(pickStr(w.r, "{\"cdiVersion\": ", "", "cdiVersion: 0.6.0\nkind: [", `{"cdiVersion":"0.6.0","kind":"vendor.com/gpu","devices":[]}`))
	}
	s := genSpec(w.r, SpecGen{Vendor: pickStr(w.r, "vendor.com", "acme.io"), Class: pickStr(w.r, "gpu", "net"), Marker: fmt.Sprintf("h%d", w.n), Plain: true, DevNames: []string{pickStr(w.r, "dev0", "dev1"), "dev2"}[:1+w.r.Intn(2)]})
	return specBytes(s, pickStr(w.r, "json", "yaml"))
}

func (w *c11World) specFiles(dir string) (spec, other []string) {
	entries, _ := os.ReadDir(dir)
	for _, e := range entries {
		if e.IsDir() {
			continue
		}
		if ext := filepath.Ext(e.Name()); ext == ".json" || ext == ".yaml" {
			spec = append(spec, e.Name())
		} else {
			other = append(other, e.Name())
		}
	}
	return
}

var c11OpKinds = []string{"create-by-write", "touch", "rewrite-in-place", "append", "tmp-rename-inside", "rename-in-from-outside", "hardlink-in", "rename-away", "rename-to-non-spec", "rename-from-non-spec", "unlink", "mkdir-missing", "rmdir-with-content", "recreate-dir", "create-invalid", "chmod", "truncate", "truncate", "rmdir-recreate", "rmdir-recreate", "symlink-in", "symlink-dangling", "symlink-rename-in", "rename-dir-away", "rename-dir-away-recreate", "populated-dir-appears", "populated-dir-appears", "replace-same-size-and-time", "replace-same-size-and-time"}

var reSameSize = regexp.MustCompile(`=v\d+`)

// do performs one operation; it returns "" when it is not applicable now.
func (w *c11World) do(kind string) (desc string) {
	w.mu.Lock()
	defer w.mu.Unlock()
	defer func() {
		// an operation that cannot be carried out (lost a race with nothing: should not happen) is skipped
		if p := recover(); p != nil {
			desc = ""
		}
	}()
	r := w.r
	dir := w.dirs[r.Intn(len(w.dirs))]
	_, statErr := os.Stat(dir)
	exists := statErr == nil
	newName := func() string {
		return fmt.Sprintf("%s%d.%s", pickStr(r, "a", "m", "z", "a", "m", "z", ".h", "..d"), r.Intn(4), pickStr(r, "json", "yaml"))
	}
	specs, others := w.specFiles(dir)
	// symbolic links live in a name space of their own (ln*.json/yaml) and are never
	// written through: a write through a link changes a file outside the directory,
	// which no watch on the directory can or must notice
	switch kind {
	case "rewrite-in-place", "append", "truncate", "chmod":
		var regular []string
		for _, n := range specs {
			if !strings.HasPrefix(n, "ln") {
				regular = append(regular, n)
			}
		}
		specs = regular
	}
	lnName := func() string { return fmt.Sprintf("ln%d.%s", r.Intn(3), pickStr(r, "json", "yaml")) }
	switch kind {
	case "symlink-in", "symlink-dangling", "symlink-rename-in":
		if !exists {
			return ""
		}
		target := filepath.Join(w.staging, fmt.Sprintf("t%d", w.n))
		w.n++
		if kind != "symlink-dangling" {
			must(os.WriteFile(target, w.content(chance(r, 85)), 0o644))
		}
		p := filepath.Join(dir, lnName())
		if kind == "symlink-rename-in" {
			tmp := filepath.Join(w.staging, fmt.Sprintf("lnk%d", w.n))
			must(os.Symlink(target, tmp))
			must(os.Rename(tmp, p)) // replaces an existing link of that name
			return "symlink renamed in " + p
		}
		if os.Symlink(target, p) != nil {
			return "" // the name is taken
		}
		return kind + " " + p
	case "create-by-write", "create-invalid":
		if !exists {
			return ""
		}
		p := filepath.Join(dir, newName())
		must(os.WriteFile(p, w.content(kind == "create-by-write"), 0o644))
		return kind + " " + p
	case "touch":
		if !exists {
			return ""
		}
		p := filepath.Join(dir, newName())
		f, err := os.OpenFile(p, os.O_CREATE|os.O_EXCL, 0o644)
		if err != nil {
			return ""
		}
		f.Close()
		return "touch " + p
	case "replace-same-size-and-time":
		// another definition, staged elsewhere with the size, the mode and the timestamps of
		// the file it replaces, renamed over it (a restore from a backup, rsync --times)
		var regular []string
		for _, n := range specs {
			if !strings.HasPrefix(n, "ln") {
				regular = append(regular, n)
			}
		}
		if len(regular) == 0 {
			return ""
		}
		p := filepath.Join(dir, regular[r.Intn(len(regular))])
		old, err := os.ReadFile(p)
		st, err2 := os.Stat(p)
		loc := reSameSize.FindIndex(old)
		if err != nil || err2 != nil || loc == nil {
			return ""
		}
		repl := append([]byte{}, old...)
		d := repl[loc[1]-1]
		repl[loc[1]-1] = '0' + (d-'0'+1+byte(r.Intn(8)))%10
		tmp := filepath.Join(w.staging, fmt.Sprintf("same%d", w.n))
		w.n++
		must(os.WriteFile(tmp, repl, st.Mode().Perm()))
		must(os.Chtimes(tmp, st.ModTime(), st.ModTime()))
		must(os.Rename(tmp, p))
		return "replace (same size, mode and mtime, another value) " + p
	case "rewrite-in-place":
		if len(specs) == 0 {
			return ""
		}
		p := filepath.Join(dir, specs[r.Intn(len(specs))])
		must(os.WriteFile(p, w.content(chance(r, 80)), 0o644))
		return "rewrite " + p
	case "append":
		if len(specs) == 0 {
			return ""
		}
		p := filepath.Join(dir, specs[r.Intn(len(specs))])
		f, err := os.OpenFile(p, os.O_APPEND|os.O_WRONLY, 0)
		if err != nil {
			return ""
		}
		f.WriteString(pickStr(r, "\n", "garbage{", "  \n"))
		f.Close()
		return "append " + p
	case "tmp-rename-inside":
		if !exists {
			return ""
		}
		tmp := filepath.Join(dir, fmt.Sprintf("spec.%d.tmp", r.Intn(1000)))
		must(os.WriteFile(tmp, w.content(true), 0o644))
		p := filepath.Join(dir, newName())
		must(os.Rename(tmp, p))
		return "tmp+rename " + p
	case "rename-in-from-outside":
		if !exists {
			return ""
		}
		src := filepath.Join(w.staging, fmt.Sprintf("s%d", w.n))
		must(os.WriteFile(src, w.content(chance(r, 85)), 0o644))
		p := filepath.Join(dir, newName())
		must(os.Rename(src, p))
		return "rename-in " + p
	case "hardlink-in":
		if !exists {
			return ""
		}
		src := filepath.Join(w.staging, fmt.Sprintf("l%d", w.n))
		must(os.WriteFile(src, w.content(true), 0o644))
		p := filepath.Join(dir, newName())
		if os.Link(src, p) != nil {
			return ""
		}
		return "hardlink-in " + p
	case "rename-away":
		if len(specs) == 0 {
			return ""
		}
		p := filepath.Join(dir, specs[r.Intn(len(specs))])
		must(os.Rename(p, filepath.Join(w.staging, fmt.Sprintf("away%d", w.n))))
		w.n++
		return "rename-away " + p
	case "rename-to-non-spec":
		if len(specs) == 0 {
			return ""
		}
		p := filepath.Join(dir, specs[r.Intn(len(specs))])
		must(os.Rename(p, p+".bak"))
		return "rename " + p + " -> .bak"
	case "rename-from-non-spec":
		for _, o := range others {
			if strings.HasSuffix(o, ".bak") {
				p := filepath.Join(dir, o)
				must(os.Rename(p, strings.TrimSuffix(p, ".bak")))
				return "rename " + p + " -> Spec name"
			}
		}
		return ""
	case "unlink":
		if len(specs) == 0 {
			return ""
		}
		p := filepath.Join(dir, specs[r.Intn(len(specs))])
		must(os.Remove(p))
		return "unlink " + p
	case "mkdir-missing", "recreate-dir":
		if exists {
			return ""
		}
		must(os.MkdirAll(dir, 0o755))
		if chance(r, 70) {
			must(os.WriteFile(filepath.Join(dir, newName()), w.content(true), 0o644))
		}
		return kind + " " + dir
	case "rmdir-recreate":
		// removed and recreated back to back: faster than anything can look
		if !exists {
			return ""
		}
		must(os.RemoveAll(dir))
		must(os.MkdirAll(dir, 0o755))
		if chance(r, 30) {
			must(os.WriteFile(filepath.Join(dir, newName()), w.content(true), 0o644))
		}
		return "rm -rf + mkdir " + dir
	case "rmdir-with-content":
		if !exists {
			return ""
		}
		must(os.RemoveAll(dir))
		return "rm -rf " + dir
	case "populated-dir-appears":
		// a missing directory appears with its Spec files already in it (renamed into
		// place): no event anywhere, only a query can notice
		if exists {
			return ""
		}
		w.n++
		tmp := filepath.Join(w.staging, fmt.Sprintf("newdir-%d", w.n))
		must(os.MkdirAll(tmp, 0o755))
		for i := 0; i <= r.Intn(2); i++ {
			must(os.WriteFile(filepath.Join(tmp, newName()), w.content(chance(r, 85)), 0o644))
		}
		must(os.MkdirAll(filepath.Dir(dir), 0o755))
		if os.Rename(tmp, dir) != nil {
			return ""
		}
		return "populated directory appears " + dir
	case "rename-dir-away", "rename-dir-away-recreate":
		// the directory leaves by being renamed, content and all (and is created
		// again, populated, at once or by a later operation)
		if !exists {
			return ""
		}
		w.n++
		must(os.Rename(dir, filepath.Join(w.staging, fmt.Sprintf("gone-dir-%d", w.n))))
		if kind == "rename-dir-away-recreate" {
			must(os.MkdirAll(dir, 0o755))
			must(os.WriteFile(filepath.Join(dir, newName()), w.content(true), 0o644))
			return "mv away + mkdir + file " + dir
		}
		return "mv away " + dir
	case "truncate":
		if len(specs) == 0 {
			return ""
		}
		p := filepath.Join(dir, specs[r.Intn(len(specs))])
		if chance(r, 50) {
			must(os.Truncate(p, 0))
		} else {
			must(os.WriteFile(p, nil, 0o644))
		}
		return "truncate " + p
	case "chmod":
		if len(specs) == 0 {
			return ""
		}
		p := filepath.Join(dir, specs[r.Intn(len(specs))])
		os.Chmod(p, 0o600)
		return "chmod " + p
	}
	return ""
}

// cacheState is what the property compares: devices with definitions, and files in error.
func cacheState(c *cdi.Cache, dirs []string, opts ...string) (string, map[string]any) {
	devs := map[string]string{}
	listings := map[string]string{}
	// which query is asked first changes from call to call (each of them brings the
	// cache up to date by itself); what they answer must not depend on it
	groups := []func(){
		func() {
			for _, q := range c.ListDevices() {
				d := c.GetDevice(q)
				if d == nil {
					devs[q] = "<nil>"
					continue
				}
				devs[q] = fmt.Sprintf("%s@%d %s", d.GetSpec().GetPath(), d.GetSpec().GetPriority(), normJSON(d.Device))
			}
		},
		func() { listings["vendors"] = fmt.Sprint(c.ListVendors()) },
		func() { listings["classes"] = fmt.Sprint(c.ListClasses()) },
		func() {
			for _, v := range []string{"vendor.com", "acme.io", "other.org"} {
				var ps []string
				for _, sp := range c.GetVendorSpecs(v) {
					ps = append(ps, fmt.Sprintf("%s@%d", sp.GetPath(), sp.GetPriority()))
				}
				sort.Strings(ps)
				listings["specs of "+v] = fmt.Sprint(ps)
			}
		},
	}
	isDir := map[string]bool{}
	for _, d := range dirs {
		isDir[filepath.Clean(d)] = true
	}
	var errs []string
	// (the error report takes its turn at being asked first too: a client may poll it alone)
	groups = append(groups, func() {
		for k := range c.GetErrors() {
			if !isDir[k] {
				errs = append(errs, k)
			}
		}
		sort.Strings(errs)
	})
	turn := int(queryTurn.Add(1))
	if len(opts) > 0 && opts[0] == "errors-last" {
		// (a cache without watcher is brought up to date by its queries; the error report,
		// which is no query, reads what the last of them found)
		n := len(groups) - 1
		for k := 0; k < n; k++ {
			groups[(turn+k)%n]()
		}
		groups[n]()
	} else {
		for k := range groups {
			groups[(turn+k)%len(groups)]()
		}
	}
	// injection of everything that resolves
	var names []string
	for q := range devs {
		names = append(names, q)
	}
	sort.Strings(names)
	inj := &oci.Spec{}
	unres, ierr := c.InjectDevices(inj, names...)
	m := map[string]any{"devices": devs, "listings": listings, "files_in_error": errs, "inject_unresolved": unres, "inject_error": fmt.Sprint(ierr), "injected": normJSON(inj)}
	return jsonStr(m), m
}

func checkC11(c *Ctx) {
	c.Rule = "seeded histories of 1-12 file-system operations over 1-3 configured directories (+ anchor): create-by-write, touch, rewrite in place, truncate to zero length, append, tmp+rename inside, rename in from a staging directory, hard link in, rename away, rename to/from a non-Spec name, unlink, chmod, create a missing (nested) directory, remove a directory with its content, recreate it (also back to back); valid and invalid content; pacing per step in {immediately, after yield, after logical quiescence, with the watcher goroutine held so that further operations pile up behind it, from inside the constructor's own directory scan, from inside a refresh's directory scan (scan.beforeRead hook) so that the change lands after its entry was passed}; observed through ListDevices/GetDevice/GetErrors/InjectDevices only (never Refresh()); oracle: after quiescence, within two rounds of queries, devices, definitions and files in error equal those of a fresh manual cache on the final contents; distinct_nontrivial = distinct (operation-kind sequence, pacing sequence) whose final state differs from the initial one"
	c.Assume("inotify delivers the events of one instance in order and the watcher goroutine handles one event completely before the next (quiescence by sentinel)", "Spec-named symbolic links are created, replaced and removed like files but never written through (a write through a link changes a file outside the directory); bind mounts and symbolic links as configured directories are outside the listed change kinds", "convergence is checked at history end, not at every instant")
	// auto-refresh caches that could not get a watcher when they were created (no
	// descriptor to be had): every query has to look at the directories itself, for
	// as long as the cache lives. Created first, while nothing else in this process
	// opens files (the limit is process-wide)
	nnw := c.pick(24, 300)
	nwCaches := make([]*cdi.Cache, nnw)
	{
		for i := range nwCaches {
			must(os.MkdirAll(filepath.Join(c.Scratch, fmt.Sprintf("nowatcher_%d", i), "d"), 0o755))
		}
		var old syscall.Rlimit
		must(syscall.Getrlimit(syscall.RLIMIT_NOFILE, &old))
		lim := old
		lim.Cur = 0
		must(syscall.Setrlimit(syscall.RLIMIT_NOFILE, &lim))
		for i := range nwCaches {
			nwCaches[i], _ = cdi.NewCache(cdi.WithSpecDirs(filepath.Join(c.Scratch, fmt.Sprintf("nowatcher_%d", i), "d")), cdi.WithAutoRefresh(true))
		}
		must(syscall.Setrlimit(syscall.RLIMIT_NOFILE, &old))
	}
	c.RunCases("nowatcher", nnw, 4, func(cs *Case) {
		r := cs.R
		var i int
		fmt.Sscanf(cs.Name, "nowatcher:%d", &i)
		cache := nwCaches[i]
		root := filepath.Join(c.Scratch, fmt.Sprintf("nowatcher_%d", i))
		dir := filepath.Join(root, "d")
		defer os.RemoveAll(root)
		defer releaseCache(cache)
		must(os.MkdirAll(dir, 0o755))
		all := []string{dir}
		if !watcherMissing(cache) {
			c.Count("nowatcher_caches_that_have_a_watcher", 1)
		}
		w := &c11World{r: r, root: root, staging: filepath.Join(root, "staging"), dirs: all}
		must(os.MkdirAll(w.staging, 0o755))
		var history []string
		for step := 0; step < 3+r.Intn(5); step++ {
			d := w.do(pickStr(r, "create-by-write", "rewrite-in-place", "unlink", "tmp-rename-inside", "rename-in-from-outside", "create-invalid", "truncate", "rmdir-recreate", "rename-away"))
			if d == "" {
				continue
			}
			history = append(history, d)
			fresh, _ := cdi.NewCache(cdi.WithSpecDirs(all...), cdi.WithAutoRefresh(false))
			want, _ := cacheState(fresh, all)
			// (no watcher, nothing asynchronous: every query looks at the directories itself,
			// whichever query comes first, so one round of queries has to be right)
			got, _ := cacheState(cache, all, "errors-last")
			c.Count("changes_seen_through_a_watcherless_cache", 1)
			if got != want {
				cs.Violation("no-convergence", map[string]string{"last_op": "watcherless", "observed": "queries"}, fmt.Sprintf("an auto-refresh cache that never got a watcher (created while the process could not open a descriptor) does not answer from the directory contents after: %s\n cache %s\n fresh %s", d, clip(got, 1200), clip(want, 1200)), map[string]any{"history": history, "spec_dir_errors": fmt.Sprint(cache.GetSpecDirErrors())})
				return
			}
		}
	})
	c.Floor("changes_seen_through_a_watcherless_cache", 50)
	// a query while the watcher goroutine is in the middle of a rescan: the watcher is
	// held inside its directory scan, past a configured directory that is still missing;
	// the directory appears (populated) and a query is made; then the watcher goes on.
	// Whoever finishes last, the cache ends up with the directory's devices
	if c.replayCase == "" || strings.HasPrefix(c.replayCase, "midscan") {
		c.RunCases("midscan", c.pick(30, 400), 4, func(cs *Case) {
			r := cs.R
			root := filepath.Join(c.Scratch, sanitize(cs.Name))
			anchor, late, d0 := filepath.Join(root, "anchor"), filepath.Join(root, "late"), filepath.Join(root, "d0")
			staging := filepath.Join(root, "staging", "late")
			for _, d := range []string{anchor, d0, staging} {
				must(os.MkdirAll(d, 0o755))
			}
			defer os.RemoveAll(root)
			mk := func(kind, dev string) []byte {
				return []byte(fmt.Sprintf(`{"cdiVersion":"0.6.0","kind":"%s","devices":[{"name":"%s","containerEdits":{"env":["D=%s"]}}]}`, kind, dev, dev))
			}
			must(os.WriteFile(filepath.Join(d0, "a.json"), mk("vendor.com/gpu", "a"), 0o644))
			must(os.WriteFile(filepath.Join(d0, "b.json"), mk("vendor.com/gpu", "b"), 0o644))
			must(os.WriteFile(filepath.Join(staging, "x.json"), mk("late.org/dev", "x"), 0o644))
			all := []string{anchor, late, d0} // the missing directory comes before the one the watcher is held in
			var armed atomic.Bool
			inScan, release := make(chan struct{}, 1), make(chan struct{})
			var refreshEnds atomic.Int64
			unhook := hookPrefix(root, func(point, arg string, _ int) {
				if point == "refresh.end" {
					refreshEnds.Add(1)
				}
				if point == "scan.beforeRead" && strings.HasPrefix(arg, d0+"/") && armed.CompareAndSwap(true, false) {
					inScan <- struct{}{}
					select {
					case <-release:
					case <-time.After(5 * time.Second):
					}
				}
			})
			defer unhook()
			a, err := newAutoCache(root, anchor, all)
			if err != nil {
				c.Inconclusive("no-inotify")
				return
			}
			defer a.Close()
			a.C.ListDevices()
			armed.Store(true)
			// one single event that makes the watcher rescan (a file renamed into place; a
			// second event would mean a second rescan, which would paper over the first)
			must(os.WriteFile(filepath.Join(root, "staging", "c.json"), mk("vendor.com/gpu", "c"), 0o644))
			must(os.Rename(filepath.Join(root, "staging", "c.json"), filepath.Join(d0, "c.json")))
			select {
			case <-inScan:
			case <-time.After(20 * time.Second):
				armed.Store(false)
				close(release)
				c.Inconclusive("watcher-not-held")
				return
			}
			// the missing directory appears, populated (mkdir + write, or renamed into place)
			if chance(r, 50) {
				must(os.Rename(staging, late))
			} else {
				must(os.MkdirAll(late, 0o755))
				must(os.WriteFile(filepath.Join(late, "x.json"), mk("late.org/dev", "x"), 0o644))
			}
			answered := make(chan []string, 1)
			go func() { answered <- a.C.ListDevices() }()
			select {
			case <-answered: // (the query did not have to wait for the watcher)
				c.Count("queries_answered_while_the_watcher_was_held_in_a_scan", 1)
				answered <- nil
			case <-time.After(time.Duration(50+r.Intn(250)) * time.Millisecond):
			}
			ends := refreshEnds.Load()
			close(release)
			<-answered
			c.Count("queries_made_while_the_watcher_was_held_in_a_scan", 1)
			// (no sentinel here: any event makes the watcher rescan everything and would paper
			// over what this is about. The held rescan is given time to put its result in place;
			// queries wait for the cache lock anyway)
			for i := 0; i < 200 && refreshEnds.Load() == ends; i++ {
				time.Sleep(50 * time.Millisecond)
			}
			time.Sleep(100 * time.Millisecond)
			fresh, _ := cdi.NewCache(cdi.WithSpecDirs(all...), cdi.WithAutoRefresh(false))
			want, _ := cacheState(fresh, all)
			got, _ := cacheState(a.C, all)
			if got != want {
				got, _ = cacheState(a.C, all)
			}
			if got != want {
				cs.Violation("no-convergence", map[string]string{"last_op": "populated-dir-appears", "observed": "queries", "pacing": "query during the watcher's rescan"}, fmt.Sprintf("a configured directory appeared (populated) and a query was made while the watcher goroutine was in the middle of a rescan, past that directory; after the watcher drained, two rounds of queries still differ from a fresh cache\n cache %s\n fresh %s", clip(got, 1200), clip(want, 1200)), map[string]any{"events": a.EventTrace()})
			}
		})
		c.Floor("queries_made_while_the_watcher_was_held_in_a_scan", 10)
	}
	// a definition that overrides another one goes away (unlinked, renamed away, moved
	// out, made invalid) as the last thing that happens: the definition it had been
	// hiding is back
	if c.replayCase == "" || strings.HasPrefix(c.replayCase, "unshadow") {
		c.RunCases("unshadow", c.pick(40, 600), 4, func(cs *Case) {
			r := cs.R
			root := filepath.Join(c.Scratch, sanitize(cs.Name))
			anchor, low, high := filepath.Join(root, "anchor"), filepath.Join(root, "low"), filepath.Join(root, "high")
			for _, d := range []string{anchor, low, high, filepath.Join(root, "elsewhere")} {
				must(os.MkdirAll(d, 0o755))
			}
			defer os.RemoveAll(root)
			mk := func(from string, devs ...string) []byte {
				s := `{"cdiVersion":"0.6.0","kind":"vendor.com/gpu","devices":[`
				for i, d := range devs {
					if i > 0 {
						s += ","
					}
					s += fmt.Sprintf(`{"name":"%s","containerEdits":{"env":["FROM=%s"]}}`, d, from)
				}
				return []byte(s + "]}")
			}
			must(os.WriteFile(filepath.Join(low, "l.json"), mk("low", "dev0", "dev1"), 0o644))
			if chance(r, 50) {
				must(os.WriteFile(filepath.Join(low, "other.yaml"), []byte("cdiVersion: 0.6.0\nkind: acme.io/net\ndevices:\n- name: n0\n  containerEdits:\n    env: [\"N=0\"]\n"), 0o644))
			}
			hf := filepath.Join(high, pickStr(r, "h.json", "a.json", "z.yaml"))
			must(os.WriteFile(hf, mk("high", "dev0"), 0o644))
			all := []string{anchor, low, high}
			a, err := newAutoCache(root, anchor, all)
			if err != nil {
				c.Inconclusive("no-inotify")
				return
			}
			defer a.Close()
			if d := a.C.GetDevice("vendor.com/gpu=dev0"); d == nil || len(d.ContainerEdits.Env) != 1 || d.ContainerEdits.Env[0] != "FROM=high" || len(a.C.GetErrors()) > 0 {
				cs.Violation("no-convergence", map[string]string{"last_op": "initial"}, fmt.Sprintf("vendor.com/gpu=dev0 is defined in both directories and does not resolve to the higher-priority one (errors %v)", a.C.GetErrors()), nil)
				return
			}
			how := pickStr(r, "unlink", "unlink", "rename-away", "rename-to-non-spec", "truncate", "rename-directory-away", "rename-directory-away")
			switch how {
			case "rename-directory-away":
				must(os.Rename(high, filepath.Join(root, "elsewhere", "high-gone")))
			case "unlink":
				must(os.Remove(hf))
			case "rename-away":
				must(os.Rename(hf, filepath.Join(root, "elsewhere", "gone.json")))
			case "rename-to-non-spec":
				must(os.Rename(hf, hf+".bak"))
			default:
				must(os.Truncate(hf, 0))
			}
			c.Count("overriding_definitions_taken_away:"+how, 1)
			if !a.Quiesce() {
				c.Inconclusive("quiesce-timeout")
				return
			}
			fresh, _ := cdi.NewCache(cdi.WithSpecDirs(all...), cdi.WithAutoRefresh(false))
			want, _ := cacheState(fresh, all)
			got, _ := cacheState(a.C, all)
			if got != want {
				if !a.Quiesce() {
					c.Inconclusive("quiesce-timeout")
					return
				}
				got, _ = cacheState(a.C, all)
			}
			if got != want {
				cs.Violation("no-convergence", map[string]string{"last_op": how, "observed": "queries", "shape": "override-taken-away"}, fmt.Sprintf("the higher-priority definition of vendor.com/gpu=dev0 was taken away (%s) as the last change; after the watcher drained, two rounds of queries still differ from a fresh cache\n cache %s\n fresh %s", how, clip(got, 1200), clip(want, 1200)), map[string]any{"events": a.EventTrace()})
			}
		})
	}
	c.RunCases("hist", c.pick(700, 12000), 4, func(cs *Case) {
		r := cs.R
		root := filepath.Join(c.Scratch, sanitize(cs.Name))
		w := &c11World{r: r, root: root, staging: filepath.Join(root, "staging")}
		must(os.MkdirAll(w.staging, 0o755))
		defer os.RemoveAll(root)
		anchor := filepath.Join(root, "anchor")
		must(os.MkdirAll(anchor, 0o755))
		nd := 1 + r.Intn(3)
		for i := 0; i < nd; i++ {
			d := filepath.Join(root, fmt.Sprintf("d%d", i))
			if chance(r, 20) {
				d = filepath.Join(root, fmt.Sprintf("nested%d", i), "sub") // missing at start, two levels
			} else if chance(r, 80) {
				must(os.MkdirAll(d, 0o755))
				for k := 0; k < r.Intn(3); k++ {
					must(os.WriteFile(filepath.Join(d, fmt.Sprintf("init%d.json", k)), w.content(chance(r, 85)), 0o644))
				}
			}
			w.dirs = append(w.dirs, d)
		}
		all := append([]string{anchor}, w.dirs...)
		if chance(r, 25) {
			// the same directories under spellings that are not in their shortest form
			for i := 1; i < len(all); i++ {
				all[i] = pickStr(r, all[i]+"/", filepath.Dir(all[i])+"/./"+filepath.Base(all[i]), all[i]+"/.", filepath.Dir(all[i])+"//"+filepath.Base(all[i]), all[i])
			}
			c.Count("histories_with_non_clean_directory_spellings", 1)
		} else if chance(r, 25) {
			// the directories configured by a path that has a symbolic link among its parent
			// components (like /var/run/cdi where /var/run is a link to /run)
			must(os.Symlink(pickStr(r, ".", root), filepath.Join(root, "via")))
			for i := 1; i < len(all); i++ {
				rel, err := filepath.Rel(root, all[i])
				must(err)
				all[i] = filepath.Join(root, "via", rel)
			}
			c.Count("histories_with_a_symbolic_link_among_the_parents", 1)
		}
		// the history
		var history, kinds, pacing []string
		var armed func()
		var armMu sync.Mutex
		if chance(r, 30) {
			// a change that lands while the cache is being constructed: performed from
			// inside the constructor's own directory scan
			kind := pickStr(r, "rename-in-from-outside", "create-by-write", "unlink", "rewrite-in-place", "rename-away", "hardlink-in", "symlink-in")
			armed = func() {
				if d := w.do(kind); d != "" {
					armMu.Lock()
					history = append(history, "during-construction: "+d)
					kinds = append(kinds, kind)
					pacing = append(pacing, "during-construction")
					armMu.Unlock()
				}
			}
		}
		unhook := hookPrefix(root, func(point, arg string, n int) {
			if point != "scan.beforeRead" {
				return
			}
			armMu.Lock()
			f := armed
			armed = nil
			armMu.Unlock()
			if f != nil {
				c.Count("armed_operations_run_inside_a_scan", 1)
				f()
			}
		})
		defer unhook()
		first := all
		reconfigured := armed == nil && chance(r, 15)
		if reconfigured {
			// the cache starts out on as many other directories and is then told the
			// real ones: what it follows from then on are the directories in force
			first = []string{anchor}
			for i := 1; i < len(all); i++ {
				d := filepath.Join(root, fmt.Sprintf("decoy%d", i))
				must(os.MkdirAll(d, 0o755))
				first = append(first, d)
			}
		}
		a, err := newAutoCache(root, anchor, first)
		if err != nil {
			c.Inconclusive("no-inotify")
			return
		}
		defer a.Close()
		if reconfigured {
			o, reuse := withDirs(all)
			a.C.Configure(o)
			reuse()
			c.Count("histories_on_a_reconfigured_cache", 1)
		}
		initial, _ := cacheState(a.C, all)
		steps := 1 + r.Intn(12)
		if len(kinds) > 0 && chance(r, 50) {
			steps = 0 // the construction-time change is the whole history
		}
		var release func()
		held := 0
		for i := 0; i < steps; i++ {
			kind := c11OpKinds[r.Intn(len(c11OpKinds))]
			if i == steps-1 && nameHash(cs.Name)%5 == 0 {
				// (one history in five ends with a change that leaves its file in error or
				// takes it away, whatever the PRNG chose)
				kind = []string{"truncate", "unlink", "create-invalid", "rename-away"}[nameHash(cs.Name)/5%4]
			}
			pace := pickStr(r, "now", "now", "yield", "quiesce", "hold", "during-scan")
			run := func() {
				if d := w.do(kind); d != "" {
					armMu.Lock()
					history = append(history, pace+": "+d)
					kinds = append(kinds, kind)
					pacing = append(pacing, pace)
					armMu.Unlock()
				}
			}
			switch pace {
			case "yield":
				for k := 0; k < 50; k++ {
					yield()
				}
				run()
			case "quiesce":
				if release != nil {
					release()
					release = nil
				}
				if !a.Quiesce() {
					c.Inconclusive("quiesce-timeout")
					return
				}
				run()
			case "hold":
				if release == nil {
					release = a.Hold()
					held = 0
				}
				run()
				held++
			case "during-scan":
				// the operation is performed by the next directory scan, after it has
				// listed the directory and before it reads a Spec file
				armMu.Lock()
				prev := armed
				armed = func() {
					if prev != nil {
						prev()
					}
					run()
				}
				armMu.Unlock()
			default:
				run()
			}
			if release != nil && held >= 1+r.Intn(4) {
				release()
				release = nil
			}
		}
		if release != nil {
			release()
		}
		// final gambit (1 history in 3): the very last change of the history is
		// made from inside the directory scan that a single-event trigger sets
		// off, so that its own event is generated while the watcher is busy
		if chance(r, 33) {
			if !a.Quiesce() {
				c.Inconclusive("quiesce-timeout")
				return
			}
			kind := pickStr(r, "rename-in-from-outside", "hardlink-in", "unlink", "rename-away", "create-by-write", "touch")
			armMu.Lock()
			prev := armed
			armed = func() {
				if prev != nil {
					prev()
				}
				if d := w.do(kind); d != "" {
					armMu.Lock()
					history = append(history, "during-scan(final): "+d)
					kinds = append(kinds, kind)
					pacing = append(pacing, "during-scan-final")
					armMu.Unlock()
				}
			}
			armMu.Unlock()
			if d := w.do(pickStr(r, "rename-in-from-outside", "unlink", "hardlink-in")); d != "" {
				history = append(history, "trigger: "+d)
				c.Count("final_gambits", 1)
			}
		}
		// an operation still armed never met a scan: perform it now
		armMu.Lock()
		f := armed
		armed = nil
		armMu.Unlock()
		if f != nil {
			c.Count("armed_operations_run_at_history_end", 1)
			f()
		}
		if len(kinds) == 0 {
			return
		}
		if !a.Quiesce() {
			c.Inconclusive("quiesce-timeout")
			return
		}
		// bounded progress: at most two rounds of queries
		fresh, _ := cdi.NewCache(cdi.WithSpecDirs(all...), cdi.WithAutoRefresh(false))
		want, wantM := cacheState(fresh, all)
		// some clients only ever read the error report: with nothing but file-level changes
		// in the history (every directory stayed watched) the watcher alone keeps it current
		dirLevel := false
		for _, k := range kinds {
			if strings.Contains(k, "dir") {
				dirLevel = true
			}
		}
		if !dirLevel && !reconfigured && chance(r, 35) {
			wantErrs := fmt.Sprint(wantM["files_in_error"])
			isDir := map[string]bool{}
			for _, d := range all {
				isDir[filepath.Clean(d)] = true
			}
			errKeys := func() string {
				var ks []string
				for k := range a.C.GetErrors() {
					if !isDir[k] {
						ks = append(ks, k)
					}
				}
				sort.Strings(ks)
				return fmt.Sprint(ks)
			}
			gotErrs := errKeys()
			if gotErrs != wantErrs {
				if !a.Quiesce() {
					c.Inconclusive("quiesce-timeout")
					return
				}
				gotErrs = errKeys()
			}
			c.Count("histories_observed_through_the_error_report_alone", 1)
			if gotErrs != wantErrs {
				cs.Violation("no-convergence", map[string]string{"last_op": kinds[len(kinds)-1], "observed": "GetErrors alone"}, fmt.Sprintf("after the history ended and the watcher drained, GetErrors() - and nothing else - asked twice still names other files in error than a fresh cache (last change: %s)\n cache %s\n fresh %s", history[len(history)-1], gotErrs, wantErrs), map[string]any{"history": history, "events": a.EventTrace()})
				return
			}
		}
		if chance(r, 50) {
			// some users only ever inject: the same bounded progress through InjectDevices alone
			var names []string
			for q := range wantM["devices"].(map[string]string) {
				names = append(names, q)
			}
			sort.Strings(names)
			if len(names) > 0 {
				okInj := false
				var last string
				for round := 1; round <= 2 && !okInj; round++ {
					inj := &oci.Spec{}
					unres, ierr := a.C.InjectDevices(inj, names...)
					last = fmt.Sprintf("%s unresolved=%v err=%v", normJSON(inj), unres, ierr)
					okInj = ierr == nil && len(unres) == 0 && normJSON(inj) == wantM["injected"].(string)
					if !okInj && !a.Quiesce() {
						c.Inconclusive("quiesce-timeout")
						return
					}
				}
				c.Count("histories_observed_through_injection_first", 1)
				if !okInj {
					cs.Violation("no-convergence", map[string]string{"last_op": kinds[len(kinds)-1], "last_pacing": pacing[len(pacing)-1], "observed": "InjectDevices only"}, fmt.Sprintf("after the history ended and the watcher drained, two rounds of InjectDevices(%v) - and nothing else - still differ from a fresh cache (last change: %s)\n cache %s\n fresh %s", names, history[len(history)-1], clip(last, 1500), clip(wantM["injected"].(string), 1500)), map[string]any{"configured_dirs": all, "history": history, "watcher_event_trace": a.EventTrace()})
					return
				}
			}
		}
		var got string
		var gotM map[string]any
		rounds := 0
		for rounds = 1; rounds <= 2; rounds++ {
			got, gotM = cacheState(a.C, all)
			if got == want {
				break
			}
			if !a.Quiesce() {
				c.Inconclusive("quiesce-timeout")
				return
			}
		}
		ev := a.EventCounts()
		for k, v := range ev {
			c.Count("watcher_event:"+k, int(v))
		}
		c.Count("histories", 1)
		c.Count("last_op:"+kinds[len(kinds)-1], 1)
		for _, p := range pacing {
			c.Count("pacing:"+p, 1)
		}
		if want != initial {
			c.Distinct(strings.Join(kinds, ",") + "|" + strings.Join(pacing, ","))
		}
		if got != want {
			cs.Violation("no-convergence", map[string]string{"last_op": kinds[len(kinds)-1], "last_pacing": pacing[len(pacing)-1]}, fmt.Sprintf("after the history ended and the watcher drained, two rounds of queries still differ from a fresh cache (last change: %s)\n cache %s\n fresh %s", history[len(history)-1], clip(got, 1500), clip(want, 1500)), map[string]any{"configured_dirs": all, "history": history, "watcher_events": ev, "watcher_event_trace": a.EventTrace(), "spec_dir_errors": fmt.Sprint(a.C.GetSpecDirErrors()), "cache_state": gotM, "fresh_cache_state": wantM})
			return
		}
		if rounds == 2 {
			c.Count("converged_in_second_round", 1)
		}
		c.Sample(4, map[string]any{"history": history, "watcher_events": ev, "rounds_of_queries": rounds})
	})
	// more events than the kernel queues while the watcher is busy (the queue overflows
	// and some are lost for good): whatever happens to that burst, the watcher must
	// still be alive for the next change
	c.RunNamed([]string{"burst:0"}, 1, func(cs *Case) {
		root := filepath.Join(c.Scratch, sanitize(cs.Name))
		anchor, d1 := filepath.Join(root, "anchor"), filepath.Join(root, "d1")
		must(os.MkdirAll(anchor, 0o755))
		must(os.MkdirAll(d1, 0o755))
		defer os.RemoveAll(root)
		all := []string{anchor, d1}
		a, err := newAutoCache(root, anchor, all)
		if err != nil {
			c.Inconclusive("no-inotify")
			return
		}
		defer a.Close()
		maxq := 16384
		if b, err := os.ReadFile("/proc/sys/fs/inotify/max_queued_events"); err == nil {
			fmt.Sscanf(string(b), "%d", &maxq)
		}
		release := a.Hold()
		content := []byte(`{"cdiVersion":"0.6.0","kind":"vendor.com/burst","devices":[{"name":"d","containerEdits":{"env":["B=1"]}}]}`)
		n := 0
		for ; n*4 < maxq+8192; n++ {
			tmp := filepath.Join(d1, "b.tmp")
			os.WriteFile(tmp, content, 0o644)
			os.Rename(tmp, filepath.Join(d1, fmt.Sprintf("b%d.json", n%3)))
		}
		release()
		c.Count("burst_file_operations", n)
		// let the watcher get through what is left of the burst, then one quiet change
		for i := 0; i < 3; i++ {
			a.Quiesce()
		}
		must(os.WriteFile(filepath.Join(d1, "after-the-burst.json"), []byte(`{"cdiVersion":"0.6.0","kind":"vendor.com/after","devices":[{"name":"d","containerEdits":{"env":["A=1"]}}]}`), 0o644))
		if !a.Quiesce() {
			// no sentinel comes through any more: the watcher is dead or stuck; the
			// comparison below decides
			c.Count("burst_quiesce_failed", 1)
		}
		fresh, _ := cdi.NewCache(cdi.WithSpecDirs(all...), cdi.WithAutoRefresh(false))
		want, _ := cacheState(fresh, all)
		got, _ := cacheState(a.C, all)
		if got != want {
			a.Quiesce()
			got, _ = cacheState(a.C, all)
		}
		c.Count("event_bursts_beyond_the_kernel_queue", 1)
		if got != want {
			cs.Violation("no-convergence", map[string]string{"last_op": "burst", "observed": "queries"}, fmt.Sprintf("after a burst of %d file operations with the watcher held (kernel queue: %d events) a later, quiet change is not reflected\n cache %s\n fresh %s", n, maxq, clip(got, 1200), clip(want, 1200)), map[string]any{"watcher_events": a.EventCounts()})
		}
	})
	c.Floor("event_bursts_beyond_the_kernel_queue", 1)
	// a higher-priority directory appears populated (missing at start, or removed and
	// recreated) and redefines a device the lower one defines too; then the cache is
	// asked - sometimes by injection only, the way a runtime would
	c.RunCases("appears", c.pick(80, 1500), 4, func(cs *Case) {
		r := cs.R
		root := filepath.Join(c.Scratch, sanitize(cs.Name))
		anchor, low, high, staging := filepath.Join(root, "anchor"), filepath.Join(root, "low"), filepath.Join(root, "high"), filepath.Join(root, "staging")
		for _, d := range []string{anchor, low, staging} {
			must(os.MkdirAll(d, 0o755))
		}
		defer os.RemoveAll(root)
		spec := func(from string, devs ...string) []byte {
			s := &specs.Spec{Version: "0.6.0", Kind: "vendor.com/gpu"}
			for _, d := range devs {
				s.Devices = append(s.Devices, specs.Device{Name: d, ContainerEdits: specs.ContainerEdits{Env: []string{"FROM_" + d + "=" + from}}})
			}
			return specBytes(s, pickStr(r, "json", "yaml"))
		}
		must(os.WriteFile(filepath.Join(low, "low.json"), spec("low", "dev0", "dev1"), 0o644))
		recreated := chance(r, 50)
		if recreated {
			must(os.MkdirAll(high, 0o755))
			must(os.WriteFile(filepath.Join(high, "old.json"), spec("high-old", "dev0"), 0o644))
		}
		all := []string{anchor, low, high}
		if chance(r, 30) {
			all = []string{low, anchor, high + "/"} // a non-clean spelling of the same list
		}
		a, err := newAutoCache(root, anchor, all)
		if err != nil {
			c.Inconclusive("no-inotify")
			return
		}
		defer a.Close()
		a.C.ListDevices()
		if recreated {
			must(os.RemoveAll(high))
			if !a.Quiesce() {
				c.Inconclusive("quiesce-timeout")
				return
			}
			if chance(r, 50) {
				a.C.ListDevices()
			}
		}
		tmp := filepath.Join(staging, "newhigh")
		must(os.MkdirAll(tmp, 0o755))
		must(os.WriteFile(filepath.Join(tmp, "high.json"), spec("high", "dev0"), 0o644))
		must(os.Rename(tmp, high))
		injectOnly := chance(r, 60)
		fresh, _ := cdi.NewCache(cdi.WithSpecDirs(all...), cdi.WithAutoRefresh(false))
		want, wantM := cacheState(fresh, all)
		names := []string{"vendor.com/gpu=dev0", "vendor.com/gpu=dev1"}
		ok := false
		var got string
		for round := 1; round <= 2 && !ok; round++ {
			if injectOnly {
				inj := &oci.Spec{}
				unres, ierr := a.C.InjectDevices(inj, names...)
				got = fmt.Sprintf("%s unresolved=%v err=%v", normJSON(inj), unres, ierr)
				ok = ierr == nil && len(unres) == 0 && normJSON(inj) == wantM["injected"].(string)
			} else {
				got, _ = cacheState(a.C, all)
				ok = got == want
			}
			if !ok && !a.Quiesce() {
				c.Inconclusive("quiesce-timeout")
				return
			}
		}
		if os.Getenv("VERIF_DEBUG") != "" {
			fmt.Fprintf(os.Stderr, "DEBUG %s recreated=%v injectOnly=%v ok=%v got=%s want=%v trace=%v\n", cs.Name, recreated, injectOnly, ok, got, wantM["injected"], a.EventTrace())
		}
		c.Count("directories_appearing_populated", 1)
		c.Distinct(fmt.Sprintf("appears|%v|%v|%d", recreated, injectOnly, len(all[2])-len(high)))
		if !ok {
			cs.Violation("no-convergence", map[string]string{"last_op": "populated-dir-appears", "observed": map[bool]string{true: "InjectDevices only", false: "queries"}[injectOnly]}, fmt.Sprintf("a higher-priority directory appeared populated (recreated=%v) and redefines a device; two rounds of %s still differ from a fresh cache\n cache %s\n fresh %s", recreated, map[bool]string{true: "InjectDevices alone", false: "queries"}[injectOnly], clip(got, 1200), clip(fmt.Sprint(wantM["injected"]), 1200)), map[string]any{"configured_dirs": all, "watcher_event_trace": a.EventTrace()})
		}
	})
	c.Floor("directories_appearing_populated", 40)
	// the directory is replaced at the very moment its watch is being set up
	// (watch.beforeAdd hook releases a spinning goroutine that removes or renames the
	// directory away and creates it again, populated): whichever side of the race
	// wins, the cache must end up knowing the directory that is at the path
	c.RunCases("swap", c.pick(3000, 30000), 8, func(cs *Case) {
		r := cs.R
		root := filepath.Join(c.Scratch, sanitize(cs.Name))
		anchor, d1, staging := filepath.Join(root, "anchor"), filepath.Join(root, "d1"), filepath.Join(root, "staging")
		must(os.MkdirAll(anchor, 0o755))
		must(os.MkdirAll(staging, 0o755))
		defer os.RemoveAll(root)
		all := []string{anchor, d1}
		a, err := newAutoCache(root, anchor, all) // d1 is missing: not watched yet
		if err != nil {
			c.Inconclusive("no-inotify")
			return
		}
		defer a.Close()
		how := pickStr(r, "rename-away", "rename-away", "rename-away", "rename-away", "rmdir")
		delay := []int{0, 30, 150, 600, 3000}[r.Intn(5)]
		headStart := []int{0, 300, 600, 1000, 1500, 2500, 4000, 7000}[r.Intn(8)]
		if headStart > 0 {
			delay = 0
		}
		var armed, goNow atomic.Bool
		unhook := hookPrefix(root, func(point, arg string, n int) {
			if point == "watch.beforeAdd" && arg == d1 && armed.CompareAndSwap(true, false) {
				goNow.Store(true)
				// head start for the other side: its rename/rmdir takes longer to get to the
				// point of no return than the path lookup of the watch set-up
				for i := 0; i < headStart; i++ {
					_ = goNow.Load()
				}
			}
		})
		defer unhook()
		must(os.MkdirAll(d1, 0o755)) // appears, empty: the next query adds the watch
		done := make(chan struct{})
		go func() {
			defer close(done)
			runtime.LockOSThread()
			defer runtime.UnlockOSThread()
			for !goNow.Load() {
			}
			for i := 0; i < delay; i++ {
				_ = goNow.Load()
			}
			if how == "rename-away" {
				os.Rename(d1, filepath.Join(staging, "gone"))
			} else {
				os.Remove(d1)
			}
			os.Mkdir(d1, 0o755)
			os.WriteFile(filepath.Join(d1, "late.json"), []byte(`{"cdiVersion":"0.6.0","kind":"vendor.com/late","devices":[{"name":"d","containerEdits":{"env":["LATE=1"]}}]}`), 0o644)
		}()
		armed.Store(true)
		a.C.ListDevices() // notices the directory and sets up its watch
		if armed.Load() {
			// the watcher goroutine or an earlier query got there first: nothing raced
			goNow.Store(true)
			c.Count("swap_not_raced", 1)
		}
		<-done
		if !a.Quiesce() {
			c.Inconclusive("quiesce-timeout")
			return
		}
		// whatever the cache has loaded by now, it must also be watching the directory
		// that is at the path: one more change there
		cacheState(a.C, all)
		must(os.WriteFile(filepath.Join(d1, "later.json"), []byte(`{"cdiVersion":"0.6.0","kind":"vendor.com/later","devices":[{"name":"d","containerEdits":{"env":["LATER=1"]}}]}`), 0o644))
		if !a.Quiesce() {
			c.Inconclusive("quiesce-timeout")
			return
		}
		fresh, _ := cdi.NewCache(cdi.WithSpecDirs(all...), cdi.WithAutoRefresh(false))
		want, wantM := cacheState(fresh, all)
		var got string
		var gotM map[string]any
		for rounds := 1; rounds <= 2; rounds++ {
			got, gotM = cacheState(a.C, all)
			if got == want {
				break
			}
			if !a.Quiesce() {
				c.Inconclusive("quiesce-timeout")
				return
			}
		}
		c.Count("directory_swaps_at_watch_setup", 1)
		c.Distinct(fmt.Sprintf("swap|%s|%d|%d", how, delay, headStart))
		if got != want {
			cs.Violation("no-convergence", map[string]string{"last_op": "swap-at-watch-setup", "last_pacing": how, "head_start": fmt.Sprint(headStart), "delay": fmt.Sprint(delay)}, fmt.Sprintf("the directory was replaced (%s, mkdir, new Spec file) while its watch was being set up; after the watcher drained, two rounds of queries still differ from a fresh cache\n cache %s\n fresh %s", how, clip(got, 1500), clip(want, 1500)), map[string]any{"configured_dirs": all, "how": how, "spin_delay": delay, "watcher_event_trace": a.EventTrace(), "spec_dir_errors": fmt.Sprint(a.C.GetSpecDirErrors()), "cache_state": gotM, "fresh_cache_state": wantM})
		}
	})
	c.Floor("directory_swaps_at_watch_setup", 1000)
	for _, k := range c11OpKinds {
		if k == "chmod" || k == "recreate-dir" || k == "mkdir-missing" || k == "rename-from-non-spec" {
			continue
		}
		c.Floor("last_op:"+k, 2)
	}
	c.Floor("watcher_event:CREATE", 10)
	c.Floor("watcher_event:WRITE", 10)
	c.Floor("watcher_event:REMOVE", 5)
	c.Floor("watcher_event:RENAME", 5)
	c.Floor("pacing:hold", 10)
	c.Floor("pacing:during-scan", 10)
}
