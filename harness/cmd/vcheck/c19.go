package main

// C19 — the cdi and validate commands report what the library computes.
// The binaries built from the working tree are run as child processes; an
// in-process cache with the same options and validator is the reference.

import (
	"bytes"
	"encoding/json"
	"fmt"
	"os"
	"os/exec"
	"path/filepath"
	"reflect"
	"regexp"
	"sort"
	"strings"
	"time"

	oci "github.com/opencontainers/runtime-spec/specs-go"
	yamlv3 "gopkg.in/yaml.v3"
	"sigs.k8s.io/yaml"
	"tags.cncf.io/container-device-interface/pkg/cdi"
	"tags.cncf.io/container-device-interface/schema"
	specs "tags.cncf.io/container-device-interface/specs-go"
)

func init() { register("C19", checkC19) }

// yamlTree is the generic tree yaml.v3 makes of obj (its key naming, its
// treatment of empty members). Multi-line strings do not go through YAML text:
// a copy of obj carries a token in place of each, the tree gets them back (a
// printed document has to parse to this tree, whatever the text is).
func yamlTree(obj any) any {
	var table []string
	tok := func(s string) string {
		if !strings.Contains(s, "\n") {
			return s
		}
		table = append(table, s)
		return fmt.Sprintf("verif-token-%d-", len(table)-1)
	}
	var cp func(v reflect.Value) reflect.Value
	cp = func(v reflect.Value) reflect.Value {
		switch v.Kind() {
		case reflect.String:
			out := reflect.New(v.Type()).Elem()
			out.SetString(tok(v.String()))
			return out
		case reflect.Ptr:
			if v.IsNil() {
				return v
			}
			out := reflect.New(v.Type().Elem())
			out.Elem().Set(cp(v.Elem()))
			return out
		case reflect.Interface:
			if v.IsNil() {
				return v
			}
			out := reflect.New(v.Type()).Elem()
			out.Set(cp(v.Elem()))
			return out
		case reflect.Struct:
			out := reflect.New(v.Type()).Elem()
			out.Set(v)
			for i := 0; i < v.NumField(); i++ {
				if out.Field(i).CanSet() {
					out.Field(i).Set(cp(v.Field(i)))
				}
			}
			return out
		case reflect.Slice:
			if v.IsNil() {
				return v
			}
			out := reflect.MakeSlice(v.Type(), v.Len(), v.Len())
			for i := 0; i < v.Len(); i++ {
				out.Index(i).Set(cp(v.Index(i)))
			}
			return out
		case reflect.Map:
			if v.IsNil() {
				return v
			}
			out := reflect.MakeMapWithSize(v.Type(), v.Len())
			for _, k := range v.MapKeys() {
				out.SetMapIndex(cp(k), cp(v.MapIndex(k)))
			}
			return out
		}
		return v
	}
	var back func(v any) any
	untok := func(s string) string {
		var i int
		if n, _ := fmt.Sscanf(s, "verif-token-%d-", &i); n == 1 && i < len(table) && s == fmt.Sprintf("verif-token-%d-", i) {
			return table[i]
		}
		// (a token inside a longer string: NAME=<token>)
		for i, t := range table {
			s = strings.ReplaceAll(s, fmt.Sprintf("verif-token-%d-", i), t)
		}
		return s
	}
	back = func(v any) any {
		switch x := v.(type) {
		case string:
			return untok(x)
		case map[string]any:
			m := map[string]any{}
			for k, e := range x {
				m[untok(k)] = back(e)
			}
			return m
		case map[any]any:
			m := map[any]any{}
			for k, e := range x {
				m[back(k)] = back(e)
			}
			return m
		case []any:
			for i, e := range x {
				x[i] = back(e)
			}
			return x
		}
		return v
	}
	wb, err := yamlv3.Marshal(cp(reflect.ValueOf(obj)).Interface())
	must(err)
	var out any
	must(yamlv3.Unmarshal(wb, &out))
	return back(out)
}

type cliResult struct {
	out  string
	code int
	err  error
}

func runCLI(bin string, stdin []byte, args ...string) cliResult {
	cmd := exec.Command(bin, args...)
	var out bytes.Buffer
	cmd.Stdout = &out
	cmd.Stderr = &out
	if stdin != nil {
		cmd.Stdin = bytes.NewReader(stdin)
	}
	cmd.Env = append(os.Environ(), "HOME=/nonexistent")
	err := cmd.Run()
	res := cliResult{out: out.String()}
	if ee, ok := err.(*exec.ExitError); ok {
		res.code = ee.ExitCode()
	} else if err != nil {
		res.err = err
	}
	return res
}

var (
	reNumbered  = regexp.MustCompile(`(?m)^[ \t]+\d+\. (.*)$`)
	reVendor    = regexp.MustCompile(`^"(.*)" \((\d+) CDI Spec Files\)$`)
	reClass     = regexp.MustCompile(`^(\S+) \((\d+) vendors: (.*)\)$`)
	reSpecFile  = regexp.MustCompile(`(?m)^[ \t]+Spec File (.*)$`)
	reErrFile   = regexp.MustCompile(`(?m)^Spec file (.*):$`)
	reDirLine   = regexp.MustCompile(`(?m)^  (\S.*) \(priority (\d+)\)$`)
	reVerboseDv = regexp.MustCompile(`(?m)^  (\S+) \((.*)\)$`)
)

func numbered(out string) []string {
	var r []string
	for _, m := range reNumbered.FindAllStringSubmatch(out, -1) {
		r = append(r, m[1])
	}
	return r
}

func sortedCopy(x []string) []string {
	y := append([]string{}, x...)
	sort.Strings(y)
	return y
}

// deindent removes n leading blanks of every line.
func deindent(s string, n int) string {
	lines := strings.Split(s, "\n")
	for i, l := range lines {
		if len(l) >= n {
			lines[i] = l[n:]
		}
	}
	return strings.Join(lines, "\n")
}

func normTree(v any) any {
	switch x := v.(type) {
	case map[string]any:
		for k, e := range x {
			x[k] = normTree(e)
		}
		return x
	case map[any]any:
		m := map[string]any{}
		for k, e := range x {
			m[fmt.Sprint(k)] = normTree(e)
		}
		return m
	case []any:
		for i, e := range x {
			x[i] = normTree(e)
		}
		return x
	case int:
		return float64(x)
	case int64:
		return float64(x)
	case uint64:
		return float64(x)
	}
	return v
}

func checkC19(c *Ctx) {
	c.Rule = "the cdi and validate binaries built from the working tree run on seeded Spec-directory populations (with and without files in error, missing directories) passed as --spec-dirs a,b / repeated -d; subcommands devices [-v -o json|yaml], vendors, classes, specs [vendor] [-v], dirs, validate, inject <file|-> <patterns> [-o json|yaml]; validate binary on C17-style documents with --schema builtin|none|<file>, file argument and stdin; reference = in-process cache with the same options and the same validator; output compared after parsing; distinct_nontrivial = distinct (subcommand+flags, population has errors, flag form)"
	c.Assume("with cache errors present the tool reports them and exits non-zero without listing (its design); listings are compared only for error-free populations", "inject: the reference injects the matched devices in sorted order, as the tool documents by sorting its matches", "monitor: the listings it prints are compared, a change it never reports is judged against a control change it does report (60 s patience each); resolve (own default-directory cache) is not checked")
	cdiBin := filepath.Join(c.Build, "cdi")
	valBin := filepath.Join(c.Build, "validate")
	for _, b := range []string{cdiBin, valBin} {
		if _, err := os.Stat(b); err != nil {
			c.HarnessError("binary %s missing (./check builds it)", b)
			return
		}
	}
	builtin := schema.BuiltinSchema()
	cdi.SetSpecValidator(builtin) // the cdi tool installs --schema builtin by default
	c.RunCases("pop", c.pick(120, 1500), 6, func(cs *Case) {
		r := cs.R
		root := filepath.Join(c.Scratch, sanitize(cs.Name))
		must(os.MkdirAll(root, 0o755))
		defer os.RemoveAll(root)
		p := genPop(r, root)
		if chance(r, 55) { // more error-free populations
			var keep []*PFile
			for _, f := range p.Files {
				if f.Kind == "valid" {
					keep = append(keep, f)
				}
			}
			p.Files = keep
			for i := range p.Exists {
				p.Exists[i] = true
			}
		}
		p.Write()
		popLead := false
		leadTags := func(yamlOut bool, t map[string]string) map[string]string {
			if popLead && yamlOut {
				t["multi_line_text_with_leading_blank_or_break_in_yaml_output"] = "true"
			}
			return t
		}
		if chance(r, 20) {
			// a file only the schema validator (which the tool installs by default, and
			// the reference has installed too) refuses: a negative hook timeout
			for i, d := range p.Phys {
				if p.Exists[i] {
					must(os.WriteFile(filepath.Join(d, "zz-schema-only.json"), []byte(`{"cdiVersion":"0.6.0","kind":"schema-only.org/dev","devices":[{"name":"d","containerEdits":{"hooks":[{"hookName":"prestart","path":"/bin/h","timeout":-1}]}}]}`), 0o644))
					c.Count("populations_with_a_file_only_the_schema_refuses", 1)
					break
				}
			}
		}
		if chance(r, 20) {
			// a device that loads and resolves but cannot be applied: its node names no type
			// and the host path does not exist (injection fails at apply time)
			for i, d := range p.Phys {
				if p.Exists[i] {
					must(os.WriteFile(filepath.Join(d, "zz-apply-fails.json"), []byte(`{"cdiVersion":"0.6.0","kind":"failing.org/dev","devices":[{"name":"gone","containerEdits":{"deviceNodes":[{"path":"/dev/verif-no-such-host-node"}]}}]}`), 0o644))
					c.Count("populations_with_a_device_that_fails_at_apply_time", 1)
					break
				}
			}
		}
		if chance(r, 35) {
			// free text that a block or quoted scalar has to carry unchanged when the tool
			// prints it: blank lines, trailing and leading blanks, things that look like YAML
			texts := []string{"one\n\nthree", "a\n\n\nb\n", "trail\n\n", "x: y\n\n# c", "tab\there\n\n\tthere", "- a\n\n- b", "|\n\n>", "a\n  indented\n\n  more"}
			if chance(r, 25) {
				// (multi-line text that begins with a blank or a line break: see known-findings.json)
				texts = []string{"\n\nlead", "  indented\n\n  more", "\tx\ny", " a\nb"}
				popLead = true
			}
			t1, t2 := texts[r.Intn(len(texts))], texts[r.Intn(len(texts))]
			txt := &specs.Spec{Version: "0.6.0", Kind: "text.org/dev", Annotations: map[string]string{"text": t1},
				Devices: []specs.Device{{Name: "t", Annotations: map[string]string{"note": t2}, ContainerEdits: specs.ContainerEdits{
					Env:    []string{"TEXT=" + t1, "NOTE=" + t2, "PCT=90% %s %d %v %%", "BRACES={{.}} ${X} \\n"},
					Hooks:  []*specs.Hook{{HookName: "prestart", Path: "/bin/h", Args: []string{"h", t2, "--limit=100%"}, Env: []string{"T=" + t1}}},
					Mounts: []*specs.Mount{{HostPath: "/h", ContainerPath: "/c", Options: []string{"ro", t1}}}}}}}
			for i, d := range p.Phys {
				if p.Exists[i] {
					enc := pickStr(r, "json", "yaml")
					must(os.WriteFile(filepath.Join(d, "zz-text."+enc), specBytes(txt, enc), 0o644))
					c.Count("populations_with_multi_line_text", 1)
					break
				}
			}
		}
		if chance(r, 15) {
			// a directory listed twice with another one in between, and a device both define
			var ex []int
			for i, ph := range p.ConfPhys {
				if p.Exists[ph] {
					ex = append(ex, i)
				}
			}
			if len(ex) >= 2 && p.ConfPhys[ex[0]] != p.ConfPhys[ex[1]] {
				a, b := ex[0], ex[1]
				for _, i := range []int{a, b} {
					must(os.WriteFile(filepath.Join(p.Phys[p.ConfPhys[i]], "zz-dup.json"), []byte(fmt.Sprintf(`{"cdiVersion":"0.6.0","kind":"dup.org/dev","devices":[{"name":"d","containerEdits":{"env":["FROM=%d"]}}]}`, i)), 0o644))
				}
				p.Conf = []string{p.Conf[a], p.Conf[b], p.Conf[a]}
				c.Count("populations_with_a_directory_listed_around_another", 1)
			}
		}
		// reference
		ref, ok := newRefAutoCache(cdi.WithSpecDirs(p.Conf...))
		defer releaseCache(ref)
		if !ok {
			c.Inconclusive("no-inotify-instance")
			return
		}
		refErrs := ref.GetErrors()
		var errKeys []string
		for k := range refErrs {
			errKeys = append(errKeys, k)
		}
		sort.Strings(errKeys)
		hasErr := len(errKeys) > 0
		dirFlag := func() []string {
			switch r.Intn(3) {
			case 0:
				return []string{"--spec-dirs", strings.Join(p.Conf, ",")}
			case 1:
				var a []string
				for _, d := range p.Conf {
					a = append(a, "-d", d)
				}
				return a
			default:
				var a []string
				for _, d := range p.Conf {
					a = append(a, "--spec-dirs="+d)
				}
				return a
			}
		}
		type sub struct {
			name string
			args []string
		}
		vendors := ref.ListVendors()
		subs := []sub{
			{"devices", []string{"devices"}}, {"devices -v -o json", []string{"devices", "-v", "-o", "json"}}, {"devices -v -o yaml", []string{"devices", "-v", "-o", "yaml"}},
			{"vendors", []string{"vendors"}}, {"classes", []string{"classes"}}, {"specs", []string{"specs"}}, {"specs -v", []string{"specs", "-v", "-o", pickStr(r, "json", "yaml")}},
			{"dirs", []string{"dirs"}}, {"validate", []string{"validate"}},
		}
		if len(vendors) > 0 {
			subs = append(subs, sub{"specs <vendor>", []string{"specs", vendors[r.Intn(len(vendors))]}})
		}
		for _, sc := range subs {
			df := dirFlag()
			args := append(append([]string{}, df...), sc.args...)
			if chance(r, 30) {
				args = append(append([]string{}, sc.args...), df...) // flags after the subcommand
			}
			res := runCLI(cdiBin, nil, args...)
			// a tool process that got no inotify instance from the machine reports
			// directory errors the reference does not have: run it again
			for attempt := 0; attempt < 8 && strings.Contains(res.out, "failed to create watcher"); attempt++ {
				envShortages.Add(1)
				waitInotify(15 * time.Second)
				res = runCLI(cdiBin, nil, args...)
			}
			if strings.Contains(res.out, "failed to create watcher") {
				c.Inconclusive("no-inotify-instance")
				continue
			}
			c.Count("cdi_invocations", 1)
			c.Count("subcommand:"+sc.name, 1)
			c.Distinct(fmt.Sprintf("%s|%v|%d", sc.name, hasErr, len(df)))
			wit := map[string]any{"args": args, "exit": res.code, "output": clip(res.out, 6000), "population": p.Describe(), "library_error_keys": errKeys}
			fail := func(class, format string, a ...any) {
				cs.Violation(class, leadTags(strings.Contains(strings.Join(sc.args, " "), "yaml"), map[string]string{"subcommand": sc.name}), fmt.Sprintf("cdi %s: ", strings.Join(args, " "))+fmt.Sprintf(format, a...), wit)
			}
			if res.err != nil {
				c.Inconclusive("exec")
				continue
			}
			if strings.Contains(res.out, "panic:") || strings.Contains(res.out, "goroutine ") {
				fail("crash", "the tool crashed")
				continue
			}
			if (res.code != 0) != hasErr {
				fail("exit-status", "exit status %d, but the library reports cache errors = %v (%v)", res.code, hasErr, errKeys)
				continue
			}
			if hasErr {
				c.Count("invocations_with_cache_errors", 1)
				var files []string
				seen := map[string]bool{}
				for _, m := range reErrFile.FindAllStringSubmatch(res.out, -1) {
					if !seen[m[1]] {
						seen[m[1]] = true
						files = append(files, m[1])
					}
				}
				sort.Strings(files)
				if !reflect.DeepEqual(files, errKeys) {
					fail("error-report", "reports the files in error %v, the library: %v", files, errKeys)
				}
				continue
			}
			c.Count("invocations_without_cache_errors", 1)
			switch sc.name {
			case "devices":
				if got, want := numbered(res.out), ref.ListDevices(); !reflect.DeepEqual(got, want) && (len(got) > 0 || len(want) > 0) {
					fail("listing", "lists devices %v, the library: %v", got, want)
				}
			case "devices -v -o json", "devices -v -o yaml":
				var got, want []string
				for _, m := range reVerboseDv.FindAllStringSubmatch(res.out, -1) {
					got = append(got, m[1]+" "+m[2])
				}
				for _, q := range ref.ListDevices() {
					want = append(want, q+" "+ref.GetDevice(q).GetSpec().GetPath())
				}
				if !reflect.DeepEqual(got, want) && (len(got) > 0 || len(want) > 0) {
					fail("listing", "lists devices (with Spec files) %v, the library: %v", got, want)
					break
				}
				// the printed definitions: each block after a heading, parsed, equals the library's device
				format := "json"
				if strings.HasSuffix(sc.name, "yaml") {
					format = "yaml"
				}
				blocks := splitBlocks(res.out, reVerboseDv)
				for i, q := range ref.ListDevices() {
					if i >= len(blocks) {
						break
					}
					body := blocks[i]
					if j := strings.Index(body, "global Spec containerEdits:"); j >= 0 {
						body = body[:j]
					}
					if ok, diff := sameTree(deindent(body, 4), ref.GetDevice(q).Device, format); !ok {
						fail("listing-detail", "the printed definition of %s differs from the library's: %s", q, diff)
						break
					}
					c.Count("verbose_definitions_compared", 1)
				}
			case "vendors":
				var got, want []string
				for _, l := range numbered(res.out) {
					if m := reVendor.FindStringSubmatch(l); m != nil {
						got = append(got, m[1]+":"+m[2])
					} else {
						got = append(got, "?"+l)
					}
				}
				for _, v := range vendors {
					want = append(want, fmt.Sprintf("%s:%d", v, len(ref.GetVendorSpecs(v))))
				}
				if !reflect.DeepEqual(got, want) && (len(got) > 0 || len(want) > 0) {
					fail("listing", "lists vendors %v, the library: %v", got, want)
				}
			case "classes":
				var got []string
				for _, l := range numbered(res.out) {
					if m := reClass.FindStringSubmatch(l); m != nil {
						got = append(got, m[1])
					} else {
						got = append(got, "?"+l)
					}
				}
				if want := ref.ListClasses(); !reflect.DeepEqual(got, want) && (len(got) > 0 || len(want) > 0) {
					fail("listing", "lists classes %v, the library: %v", got, want)
				}
			case "specs", "specs -v", "specs <vendor>":
				var got, want []string
				for _, m := range reSpecFile.FindAllStringSubmatch(res.out, -1) {
					got = append(got, m[1])
				}
				for _, v := range vendors {
					for _, s := range ref.GetVendorSpecs(v) {
						want = append(want, s.GetPath())
					}
				}
				// (a vendor argument only selects whether anything is listed: the tool lists all vendors' Specs)
				if !reflect.DeepEqual(sortedCopy(got), sortedCopy(want)) && (len(got) > 0 || len(want) > 0) {
					fail("listing", "lists Spec files %v, the library: %v", sortedCopy(got), sortedCopy(want))
					break
				}
				if sc.name == "specs -v" {
					format := sc.args[len(sc.args)-1]
					blocks := splitBlocks(res.out, reSpecFile)
					byPath := map[string]*cdi.Spec{}
					for _, v := range vendors {
						for _, sp := range ref.GetVendorSpecs(v) {
							byPath[sp.GetPath()] = sp
						}
					}
					for i, path := range got {
						if i >= len(blocks) || byPath[path] == nil {
							break
						}
						body := blocks[i]
						if j := strings.Index(body, "\nVendor "); j >= 0 {
							body = body[:j+1]
						}
						if ok, diff := sameTree(deindent(body, 4), byPath[path].Spec, format); !ok {
							fail("listing-detail", "the printed Spec %s differs from the library's: %s", path, diff)
							break
						}
						c.Count("verbose_definitions_compared", 1)
					}
				}
			case "dirs":
				var got, want []string
				for _, m := range reDirLine.FindAllStringSubmatch(res.out, -1) {
					got = append(got, m[1]+"@"+m[2])
				}
				for i, d := range ref.GetSpecDirectories() {
					want = append(want, fmt.Sprintf("%s@%d", d, i))
				}
				if !reflect.DeepEqual(got, want) {
					fail("listing", "shows directories %v, the library: %v", got, want)
				}
			case "validate":
				if !strings.Contains(res.out, "No CDI cache errors") {
					fail("error-report", "does not say that there are no cache errors although the library has none")
				}
			}
		}
		// inject
		if !hasErr {
			devs := ref.ListDevices()
			if len(devs) > 0 {
				for k := 0; k < 3; k++ {
					ociSpec := genOCI(r)
					var patterns []string
					for i := 0; i < 1+r.Intn(3); i++ {
						d := devs[r.Intn(len(devs))]
						switch r.Intn(6) {
						case 4:
							// a character class and no other wild card
							patterns = append(patterns, d[:len(d)-1]+"["+d[len(d)-1:]+"]")
						case 5:
							// an escaped character and no other wild card / a negated class
							patterns = append(patterns, pickStr(r, d[:len(d)-1]+"\\"+d[len(d)-1:], d[:len(d)-1]+"[^#]"))
						case 0:
							patterns = append(patterns, d)
						case 1:
							patterns = append(patterns, d[:strings.IndexByte(d, '=')+1]+"*")
						case 2:
							patterns = append(patterns, "*"+d[len(d)-1:])
						default:
							patterns = append(patterns, "*/*=*", "nomatch*")
						}
					}
					format := pickStr(r, "json", "yaml", "")
					ociFile := filepath.Join(root, "oci."+pickStr(r, "json", "yaml"))
					var data []byte
					if strings.HasSuffix(ociFile, ".json") {
						data, _ = json.Marshal(ociSpec)
					} else if chance(r, 35) {
						// YAML in flow style: begins with a brace like JSON does, and is not JSON
						data, _ = json.Marshal(ociSpec)
						data = append([]byte("{ociVersion: "), bytes.TrimPrefix(data, []byte(`{"ociVersion":`))...)
						c.Count("inject_oci_specs_in_flow_style_yaml", 1)
					} else {
						data, _ = yaml.Marshal(ociSpec)
					}
					must(os.WriteFile(ociFile, data, 0o644))
					args := append(dirFlag(), "inject")
					if format != "" {
						args = append(args, "-o", format)
					}
					var stdin []byte
					if chance(r, 30) {
						args = append(args, "-")
						stdin = data
					} else {
						args = append(args, ociFile)
					}
					args = append(args, patterns...)
					res := runCLI(cdiBin, stdin, args...)
					for attempt := 0; attempt < 8 && strings.Contains(res.out, "failed to create watcher"); attempt++ {
						envShortages.Add(1)
						waitInotify(15 * time.Second)
						res = runCLI(cdiBin, stdin, args...)
					}
					if strings.Contains(res.out, "failed to create watcher") {
						c.Inconclusive("no-inotify-instance")
						continue
					}
					c.Count("cdi_invocations", 1)
					c.Count("subcommand:inject", 1)
					c.Distinct(fmt.Sprintf("inject|%s|%v|%d", format, stdin != nil, len(patterns)))
					// reference
					matched := map[string]bool{}
					for _, d := range devs {
						for _, g := range patterns {
							if ok, _ := filepath.Match(g, d); ok {
								matched[d] = true
							}
						}
					}
					var req []string
					for d := range matched {
						req = append(req, d)
					}
					sort.Strings(req)
					refSpec := &oci.Spec{}
					must(yaml.Unmarshal(data, refSpec))
					_, ierr := ref.InjectDevices(refSpec, req...)
					wit := map[string]any{"args": args, "exit": res.code, "output": clip(res.out, 8000), "patterns": patterns, "matched_devices": req, "oci_input": string(data), "population": p.Describe()}
					fail := func(class, format string, a ...any) {
						cs.Violation(class, leadTags(format != "json", map[string]string{"subcommand": "inject"}), fmt.Sprintf("cdi %s: ", strings.Join(args, " "))+fmt.Sprintf(format, a...), wit)
					}
					if (res.code != 0) != (ierr != nil) {
						fail("exit-status", "exit status %d, library injection error: %v", res.code, ierr)
						continue
					}
					if ierr != nil {
						continue
					}
					idx := strings.Index(res.out, "Updated OCI Spec:\n")
					if idx < 0 {
						fail("inject-output", "no 'Updated OCI Spec:' in the output")
						continue
					}
					body := deindent(res.out[idx+len("Updated OCI Spec:\n"):], 2)
					eff := format
					if eff == "" {
						eff = "yaml"
					}
					var got, want any
					var perr error
					if eff == "json" {
						perr = json.Unmarshal([]byte(body), &got)
						wb, _ := json.Marshal(refSpec)
						json.Unmarshal(wb, &want)
					} else {
						perr = yamlv3.Unmarshal([]byte(body), &got)
						want = yamlTree(refSpec)
					}
					if perr != nil {
						fail("inject-output", "printed OCI spec does not parse as %s: %v", eff, perr)
						continue
					}
					if !reflect.DeepEqual(normTree(got), normTree(want)) {
						gj, _ := json.Marshal(normTree(got))
						wj, _ := json.Marshal(normTree(want))
						wit["printed_tree"], wit["library_tree"] = string(gj), string(wj)
						fail("inject-output", "the printed OCI spec differs from what library injection of %v produces", req)
					}
				}
			}
		}
		c.Sample(3, map[string]any{"configured_dirs": p.Conf, "library_error_keys": errKeys, "devices": ref.ListDevices()})
	})
	// the monitor subcommand
	if c.replayCase == "" || strings.HasPrefix(c.replayCase, "monitor") {
		c19Monitor(c, cdiBin)
	}
	// the validate tool
	ss, err := loadSchemaSet(filepath.Join(c.Repo, "schema"))
	if err != nil {
		c.HarnessError("schema files: %v", err)
		return
	}
	_ = ss
	none, _ := schema.Load("none")
	extDir := filepath.Join(c.Scratch, "ext")
	must(os.MkdirAll(extDir, 0o755))
	for _, f := range []string{"schema.json", "defs.json"} {
		data, err := os.ReadFile(filepath.Join(c.Repo, "schema", f))
		must(err)
		must(os.WriteFile(filepath.Join(extDir, f), data, 0o644))
	}
	external, err := schema.Load(filepath.Join(extDir, "schema.json"))
	if err != nil {
		c.HarnessError("Load(external copy): %v", err)
		return
	}
	docs := filepath.Join(c.Scratch, "vdocs")
	must(os.MkdirAll(docs, 0o755))
	c.RunCases("validate", c.pick(150, 2500), 8, func(cs *Case) {
		r := cs.R
		spec := genSpec(r, SpecGen{Marker: "m"})
		d := specDoc(spec)
		var muts []string
		if chance(r, 60) {
			for i := 0; i < 1+r.Intn(2); i++ {
				muts = append(muts, c17Mutate(r, d))
			}
		}
		enc := pickStr(r, "json", "yaml")
		var data []byte
		if enc == "json" {
			data = []byte(emitJSON(d))
		} else {
			data = []byte(emitYAML(d))
		}
		file := filepath.Join(docs, sanitize(cs.Name)+"."+enc)
		must(os.WriteFile(file, data, 0o644))
		defer os.Remove(file)
		// ("" = the option given with an empty name, "<default>" = no option at all: the
		// tool announces the builtin schema for both)
		schemaArg := pickStr(r, "builtin", "builtin", "none", filepath.Join(extDir, "schema.json"), "", "<default>")
		var s *schema.Schema
		switch schemaArg {
		case "builtin", "", "<default>":
			s = builtin
		case "none":
			s = none
		default:
			s = external
		}
		useStdin := chance(r, 35)
		args := []string{"--schema", schemaArg}
		switch {
		case schemaArg == "<default>":
			args = nil
		case schemaArg == "" && chance(r, 50):
			args = []string{"--schema="}
		case chance(r, 25):
			args = []string{"-schema=" + schemaArg}
		}
		c.Count("validate_schema_choice:"+filepath.Base(schemaArg), 1)
		var stdin []byte
		var want error
		if useStdin {
			stdin = data
			want = s.ValidateData(data)
		} else {
			args = append(args, file)
			want = s.ValidateFile(file)
			// several documents in one invocation: non-zero iff any of them fails
			for k := r.Intn(4) - 1; k > 0; k-- {
				d2 := specDoc(genSpec(r, SpecGen{Marker: "m"}))
				if chance(r, 40) {
					muts = append(muts, "doc+: "+c17Mutate(r, d2))
				}
				enc2 := pickStr(r, "json", "yaml")
				data2 := []byte(emitJSON(d2))
				if enc2 == "yaml" {
					data2 = []byte(emitYAML(d2))
				}
				f2 := filepath.Join(docs, fmt.Sprintf("%s-%d.%s", sanitize(cs.Name), k, enc2))
				must(os.WriteFile(f2, data2, 0o644))
				defer os.Remove(f2)
				if chance(r, 50) {
					args = append(args, f2)
				} else {
					args = append(args[:len(args)-1:len(args)-1], f2, args[len(args)-1])
				}
				if e := s.ValidateFile(f2); e != nil && want == nil {
					want = fmt.Errorf("%s: %w", filepath.Base(f2), e)
				}
				c.Count("validate_invocations_with_several_documents", 1)
			}
		}
		res := runCLI(valBin, stdin, args...)
		c.Count("validate_invocations", 1)
		c.Distinct(fmt.Sprintf("validate|%s|%v|%s|%v", pickStr(r, schemaArg), useStdin, enc, want == nil))
		if want == nil {
			c.Count("validate_accepting", 1)
		} else {
			c.Count("validate_rejecting", 1)
		}
		if res.err != nil {
			c.Inconclusive("exec")
			return
		}
		if (res.code != 0) != (want != nil) {
			cs.Violation("validate-exit", map[string]string{"schema": schemaArg}, fmt.Sprintf("validate %s exits with %d, library validation of the document: %v", strings.Join(args, " "), res.code, want), map[string]any{"args": args, "stdin": useStdin, "document": clip(string(data), 4000), "mutations": muts, "output": clip(res.out, 3000)})
		}
	})
	for _, k := range []string{"devices", "devices -v -o json", "vendors", "classes", "specs", "specs -v", "dirs", "validate", "inject"} {
		c.Floor("subcommand:"+k, 5)
	}
	c.Floor("invocations_with_cache_errors", 20)
	c.Floor("invocations_without_cache_errors", 20)
	c.Floor("validate_accepting", 5)
	c.Floor("validate_rejecting", 5)
	c.Floor("validate_invocations_with_several_documents", 10)
}

// splitBlocks returns the text following each heading line (matched by re) up to the next heading.
func splitBlocks(out string, re *regexp.Regexp) []string {
	idx := re.FindAllStringIndex(out, -1)
	var blocks []string
	for i, m := range idx {
		end := len(out)
		if i+1 < len(idx) {
			end = idx[i+1][0]
		}
		start := m[1]
		if start < len(out) && out[start] == '\n' {
			start++
		}
		blocks = append(blocks, out[start:end])
	}
	return blocks
}

// sameTree parses text in the given format and compares it with obj marshalled the way the tool does.
func sameTree(text string, obj any, format string) (bool, string) {
	var got, want any
	if format == "json" {
		if err := json.Unmarshal([]byte(text), &got); err != nil {
			return false, "output does not parse as JSON: " + err.Error() + ": " + clip(text, 300)
		}
		wb, _ := json.Marshal(obj)
		json.Unmarshal(wb, &want)
	} else {
		if err := yamlv3.Unmarshal([]byte(text), &got); err != nil {
			return false, "output does not parse as YAML: " + err.Error() + ": " + clip(text, 300)
		}
		want = yamlTree(obj)
	}
	if !reflect.DeepEqual(normTree(got), normTree(want)) {
		gj, _ := json.Marshal(normTree(got))
		wj, _ := json.Marshal(normTree(want))
		return false, fmt.Sprintf("printed %s, library %s", clip(string(gj), 400), clip(string(wj), 400))
	}
	return true, ""
}
