package main

// C18 — every Spec the library accepts also passes the builtin schema.

import (
	"bufio"
	"encoding/json"
	"fmt"
	"math"
	"math/rand"
	"os"
	"os/exec"
	"path/filepath"
	"strings"
	"sync"
	"sync/atomic"

	"tags.cncf.io/container-device-interface/pkg/cdi"
	"tags.cncf.io/container-device-interface/schema"
	specs "tags.cncf.io/container-device-interface/specs-go"
)

func init() {
	register("C18", checkC18)
	registerChild("c18", childC18)
}

func c18Numeric(r *rand.Rand, s *specs.Spec) string {
	e := &s.Devices[0].ContainerEdits
	switch r.Intn(6) {
	case 0:
		e.DeviceNodes = []*specs.DeviceNode{{Path: "/dev/x", Type: "c", Major: math.MaxInt64, Minor: math.MinInt64}}
		return "major=MaxInt64 minor=MinInt64"
	case 1:
		e.DeviceNodes = []*specs.DeviceNode{{Path: "/dev/x", Type: "b", Major: math.MinInt64, Minor: math.MaxInt64, UID: u32p(math.MaxUint32), GID: u32p(0)}}
		return "major=MinInt64 uid=MaxUint32 gid=0"
	case 2:
		e.DeviceNodes = []*specs.DeviceNode{{Path: "/dev/x", Type: "p", FileMode: fmode(math.MaxUint32), UID: u32p(0), GID: u32p(math.MaxUint32)}, {Path: "/dev/y", Type: "p", FileMode: fmode(0)}}
		return "fileMode=MaxUint32,0 gid=MaxUint32"
	case 3:
		e.Hooks = []*specs.Hook{{HookName: "prestart", Path: "/h", Timeout: intp(math.MaxUint32)}, {HookName: "poststop", Path: "/h", Timeout: intp(0)}, {HookName: "poststart", Path: "/h", Timeout: intp(1)}}
		return "timeout=MaxUint32,0,1"
	case 4:
		e.AdditionalGIDs = []uint32{0, math.MaxUint32, 1, 0}
		return "gids=0,MaxUint32"
	default:
		e.DeviceNodes = []*specs.DeviceNode{{Path: "/dev/x", Type: "c", Major: 1 << 53, Minor: (1 << 53) + 1}}
		return "major=2^53 minor=2^53+1"
	}
}

type c18CatEntry struct {
	name  string
	build func() *specs.Spec
}

// c18Cat: every minimal form of every kind of edit (and the numeric extremes
// the property names), as the only edit of the only device, at Spec level, and
// as the only edit of the last of three devices.
var c18Cat = func() []c18CatEntry {
	type min struct {
		name string
		e    func() specs.ContainerEdits
	}
	node := func(n specs.DeviceNode) func() specs.ContainerEdits {
		return func() specs.ContainerEdits { m := n; return specs.ContainerEdits{DeviceNodes: []*specs.DeviceNode{&m}} }
	}
	hook := func(h specs.Hook) func() specs.ContainerEdits {
		return func() specs.ContainerEdits { m := h; return specs.ContainerEdits{Hooks: []*specs.Hook{&m}} }
	}
	rdt := func(i specs.IntelRdt) func() specs.ContainerEdits {
		return func() specs.ContainerEdits { m := i; return specs.ContainerEdits{IntelRdt: &m} }
	}
	mins := []min{
		{"env A=", func() specs.ContainerEdits { return specs.ContainerEdits{Env: []string{"A="}} }},
		{"node with a path only", node(specs.DeviceNode{Path: "/dev/x"})},
		{"node fileMode 2^32-1 uid gid 2^32-1", node(specs.DeviceNode{Path: "/dev/x", Type: "c", FileMode: fmode(math.MaxUint32), UID: u32p(math.MaxUint32), GID: u32p(math.MaxUint32)})},
		{"node fileMode 0 uid gid 0", node(specs.DeviceNode{Path: "/dev/x", Type: "p", FileMode: fmode(0), UID: u32p(0), GID: u32p(0)})},
		{"node with a minor and no major", node(specs.DeviceNode{Path: "/dev/x", Type: "c", Minor: 7})},
		{"node with the largest minor and no major", node(specs.DeviceNode{Path: "/dev/x", Type: "b", Minor: math.MaxInt64})},
		{"node with a major and no minor", node(specs.DeviceNode{Path: "/dev/x", Type: "c", Major: 7})},
		{"node with uid and no gid", node(specs.DeviceNode{Path: "/dev/x", Type: "c", Major: 1, UID: u32p(7)})},
		{"node with gid and no uid", node(specs.DeviceNode{Path: "/dev/x", Type: "c", Major: 1, GID: u32p(7)})},
		{"node with permissions only", node(specs.DeviceNode{Path: "/dev/x", Permissions: "rwm"})},
		{"node major minor extremes", node(specs.DeviceNode{Path: "/dev/x", Type: "b", Major: math.MaxInt64, Minor: math.MinInt64})},
		{"hook without timeout", hook(specs.Hook{HookName: "createRuntime", Path: "/h"})},
		{"hook timeout 0", hook(specs.Hook{HookName: "prestart", Path: "/h", Timeout: intp(0)})},
		{"hook timeout 1", hook(specs.Hook{HookName: "poststart", Path: "/h", Timeout: intp(1)})},
		{"hook timeout 2^31", hook(specs.Hook{HookName: "poststop", Path: "/h", Timeout: intp(1 << 31)})},
		{"hook timeout 2^32-2", hook(specs.Hook{HookName: "createContainer", Path: "/h", Timeout: intp(math.MaxUint32 - 1)})},
		{"hook timeout 2^32-1", hook(specs.Hook{HookName: "startContainer", Path: "/h", Timeout: intp(math.MaxUint32)})},
		{"mount with paths only", func() specs.ContainerEdits {
			return specs.ContainerEdits{Mounts: []*specs.Mount{{HostPath: "/h", ContainerPath: "/c"}}}
		}},
		{"empty intelRdt object", rdt(specs.IntelRdt{})},
		{"intelRdt closID only", rdt(specs.IntelRdt{ClosID: "c"})},
		{"intelRdt enableCMT only", rdt(specs.IntelRdt{EnableCMT: true})},
		{"intelRdt enableMBM only", rdt(specs.IntelRdt{EnableMBM: true})},
		{"additionalGids [0]", func() specs.ContainerEdits { return specs.ContainerEdits{AdditionalGIDs: []uint32{0}} }},
		{"additionalGids [2^32-1]", func() specs.ContainerEdits { return specs.ContainerEdits{AdditionalGIDs: []uint32{math.MaxUint32}} }},
	}
	var out []c18CatEntry
	// annotation values: empty, blank, long; keys at their limits (at Spec level and in a device)
	for _, a := range []struct {
		name string
		m    map[string]string
	}{
		{"annotation with an empty value", map[string]string{"k": ""}},
		{"annotation keys that are member names of the document", map[string]string{"annotations": "v", "devices": "v", "name": "v", "containerEdits": "v", "kind": "v", "cdiVersion": "v", "env": "v"}},
		{"annotations with empty and blank values", map[string]string{"example.com/key": "", "other": " ", "third": "\t"}},
		{"annotation key of 63+1+63 bytes with an empty value", map[string]string{strings.Repeat("p", 63) + "/" + strings.Repeat("n", 63): ""}},
	} {
		a := a
		cp := func() map[string]string {
			m := map[string]string{}
			for k, v := range a.m {
				m[k] = v
			}
			return m
		}
		out = append(out,
			c18CatEntry{a.name + " / Spec level", func() *specs.Spec {
				return &specs.Spec{Version: "1.0.0", Kind: "vendor.com/gpu", Annotations: cp(), Devices: []specs.Device{{Name: "dev0", ContainerEdits: specs.ContainerEdits{Env: []string{"D=0"}}}}}
			}},
			c18CatEntry{a.name + " / last of two devices", func() *specs.Spec {
				return &specs.Spec{Version: "1.0.0", Kind: "vendor.com/gpu", Devices: []specs.Device{
					{Name: "dev0", ContainerEdits: specs.ContainerEdits{Env: []string{"D=0"}}},
					{Name: "dev1", Annotations: cp(), ContainerEdits: specs.ContainerEdits{Env: []string{"D=1"}}}}}
			}})
	}
	out = append(out,
		c18CatEntry{"cdiVersion written with a leading v", func() *specs.Spec {
			return &specs.Spec{Version: "v0.6.0", Kind: "vendor.com/gpu", Devices: []specs.Device{{Name: "dev0", ContainerEdits: specs.ContainerEdits{Env: []string{"D=0"}}}}}
		}},
		c18CatEntry{"cdiVersion v1.0.0", func() *specs.Spec {
			return &specs.Spec{Version: "v1.0.0", Kind: "vendor.com/gpu", Devices: []specs.Device{{Name: "dev0", ContainerEdits: specs.ContainerEdits{Env: []string{"D=0"}}}}}
		}},
		c18CatEntry{"device names that differ in letter case only", func() *specs.Spec {
			return &specs.Spec{Version: "1.0.0", Kind: "vendor.com/gpu", Devices: []specs.Device{
				{Name: "gpu0", ContainerEdits: specs.ContainerEdits{Env: []string{"D=0"}}},
				{Name: "GPU0", ContainerEdits: specs.ContainerEdits{Env: []string{"D=1"}}},
				{Name: "Gpu0", ContainerEdits: specs.ContainerEdits{Env: []string{"D=2"}}}}}
		}},
		c18CatEntry{"kinds and names at their extremes", func() *specs.Spec {
			return &specs.Spec{Version: "1.0.0", Kind: "V-1.x_y/c-1_z.w", Devices: []specs.Device{
				{Name: "0", ContainerEdits: specs.ContainerEdits{Env: []string{"D=0"}}},
				{Name: "x-y_z.w:1", ContainerEdits: specs.ContainerEdits{Env: []string{"D=1"}}}}}
		}})
	for _, m := range mins {
		m := m
		out = append(out,
			c18CatEntry{m.name + " / only edit of the only device", func() *specs.Spec {
				return &specs.Spec{Version: "1.0.0", Kind: "vendor.com/gpu", Devices: []specs.Device{{Name: "dev0", ContainerEdits: m.e()}}}
			}},
			c18CatEntry{m.name + " / only Spec-level edit", func() *specs.Spec {
				return &specs.Spec{Version: "1.0.0", Kind: "vendor.com/gpu", ContainerEdits: m.e(), Devices: []specs.Device{{Name: "dev0", ContainerEdits: specs.ContainerEdits{Env: []string{"D=0"}}}}}
			}},
			c18CatEntry{m.name + " / only edit of the last of three devices", func() *specs.Spec {
				return &specs.Spec{Version: "1.0.0", Kind: "vendor.com/gpu", Devices: []specs.Device{
					{Name: "dev0", ContainerEdits: specs.ContainerEdits{Env: []string{"D=0"}}},
					{Name: "dev1", ContainerEdits: specs.ContainerEdits{Env: []string{"D=1"}}},
					{Name: "dev2", ContainerEdits: m.e()}}}
			}})
	}
	return out
}()

type c18Item struct {
	Case  string            `json:"case"`
	Spec  *specs.Spec       `json:"spec"`
	Tags  map[string]string `json:"tags"`
	Descr string            `json:"descr"`
	// a hand-written Spec file (not produced by the library's writer) that loads
	// without a validator: Raw is its content, RawName its file name
	Raw     string `json:"raw,omitempty"`
	RawName string `json:"raw_name,omitempty"`
}

type c18Result struct {
	Case string `json:"case"`
	Enc  string `json:"enc"`
	Op   string `json:"op"`
	Err  string `json:"err"`
}

// childC18: installs the builtin schema as the Spec validator (process
// global) and writes + reads every Spec of the batch file in both encodings.
func childC18(args []string) int {
	batch, dir := args[0], args[1]
	f, err := os.Open(batch)
	if err != nil {
		fmt.Fprintln(os.Stderr, err)
		return 2
	}
	cdi.SetSpecValidator(schema.BuiltinSchema())
	cache, _ := cdi.NewCache(cdi.WithSpecDirs(dir), cdi.WithAutoRefresh(false))
	sc := bufio.NewScanner(f)
	sc.Buffer(make([]byte, 1<<20), 1<<28)
	out := json.NewEncoder(os.Stdout)
	for sc.Scan() {
		var it c18Item
		if err := json.Unmarshal(sc.Bytes(), &it); err != nil {
			fmt.Fprintln(os.Stderr, err)
			return 2
		}
		if it.Raw != "" {
			path := filepath.Join(dir, it.RawName)
			os.MkdirAll(dir, 0o755)
			os.WriteFile(path, []byte(it.Raw), 0o644)
			var rerr error
			if pv, _ := guard(func() { _, rerr = cdi.ReadSpec(path, 0) }); pv != nil {
				rerr = fmt.Errorf("panic: %v", pv)
			}
			if rerr != nil {
				out.Encode(c18Result{it.Case, filepath.Ext(it.RawName)[1:], "ReadSpec", rerr.Error()})
			}
			os.Remove(path)
			out.Encode(c18Result{it.Case, "", "done", ""})
			continue
		}
		for _, enc := range []string{"json", "yaml"} {
			name := "v." + enc
			path := filepath.Join(dir, name)
			os.Remove(path)
			var werr, rerr error
			if pv, _ := guard(func() { werr = cache.WriteSpec(it.Spec, name) }); pv != nil {
				werr = fmt.Errorf("panic: %v", pv)
			}
			if werr != nil {
				out.Encode(c18Result{it.Case, enc, "WriteSpec", werr.Error()})
				continue
			}
			if pv, _ := guard(func() { _, rerr = cdi.ReadSpec(path, 0) }); pv != nil {
				rerr = fmt.Errorf("panic: %v", pv)
			}
			if rerr != nil {
				out.Encode(c18Result{it.Case, enc, "ReadSpec", rerr.Error()})
			}
		}
		out.Encode(c18Result{it.Case, "", "done", ""})
	}
	return 0
}

func checkC18(c *Ctx) {
	c.Rule = "library-valid Specs (accepted by Cache.WriteSpec with no external validator): G-SPEC over all optional fields, boundary-valid Specs, numeric extremes of every integer field (hook timeouts 0..2^32-1), one free-text field at a time filled from G-STR; oracles: BuiltinSchema().Validate(spec)==nil, the .json and .yaml files the library wrote pass ValidateFile and ValidateData, and in a child process with SetSpecValidator(BuiltinSchema()) installed WriteSpec and ReadSpec still succeed; distinct_nontrivial = distinct (generator kind, field, string class / numeric case, feature signature)"
	c.Assume("library validity is decided by the library itself (WriteSpec without validator); Specs it rejects are skipped and counted", "the process-global validator is only installed in dedicated child processes")
	builtin := schema.BuiltinSchema()
	if builtin.ValidateData([]byte("{}")) == nil {
		c.violation("canary", "builtin-is-noop", nil, "the builtin schema accepts {}: it validates nothing, so this check would be vacuous", nil)
		return
	}
	dir := filepath.Join(c.Scratch, "c18")
	must(os.MkdirAll(dir, 0o755))
	var mu sync.Mutex
	var items []c18Item
	c.RunCases("gen", c.pick(2500, 60000), 0, func(cs *Case) {
		r := cs.R
		var s *specs.Spec
		tags := map[string]string{}
		descr := ""
		var ci int
		fmt.Sscanf(cs.Name, "gen:%d", &ci)
		switch k := r.Intn(10); {
		case ci < len(c18Cat):
			// the catalogue of minimal edits, each one alone in a device, at Spec level
			// and in the last of three devices (PRNG independent)
			s, descr = c18Cat[ci].build(), "catalogue: "+c18Cat[ci].name
			tags["class"], tags["entry"] = "catalogue", c18Cat[ci].name
		case k < 3:
			s = genSpec(r, SpecGen{Marker: "m"})
			descr = "G-SPEC"
		case k < 4:
			s = c05Base(r)
			descr = "boundary-valid base"
		case k < 5:
			s = c09Base(r)
			descr = "numeric: " + c18Numeric(r, s)
			tags["class"] = "numeric"
		case k < 6 && chance(r, 8):
			// in-memory shapes a document never has after parsing: nil entries in the lists
			// of a device's edits, allocated-but-empty lists. If the library accepts such a
			// Spec for writing it has to stand by it
			s = c09Base(r)
			e := &s.Devices[0].ContainerEdits
			switch r.Intn(5) {
			case 0:
				e.Hooks = []*specs.Hook{{HookName: "prestart", Path: "/bin/h"}, nil}
			case 1:
				e.Mounts = []*specs.Mount{nil, {HostPath: "/h", ContainerPath: "/c"}}
			case 2:
				e.DeviceNodes = []*specs.DeviceNode{{Path: "/dev/x", Type: "c", Major: 1, Minor: 3}, nil}
			case 3:
				e.Hooks, e.Mounts, e.DeviceNodes = []*specs.Hook{nil}, []*specs.Mount{nil}, []*specs.DeviceNode{nil}
			default:
				e.Hooks, e.Mounts, e.DeviceNodes, e.AdditionalGIDs = []*specs.Hook{}, []*specs.Mount{}, []*specs.DeviceNode{}, []uint32{}
			}
			descr = "in-memory shape: nil or empty list entries in a device's edits"
			tags["class"] = "shape"
		case k < 6 && chance(r, 6):
			// a large document: many devices, each with a large annotation set of its own
			// (every set within the limit): the files written for it exceed 1 MiB, or
			// a power of two of kilobytes by a little
			s = c09Base(r)
			ndev := []int{5, 9, 12, 17}[r.Intn(4)]
			per := []int{120 << 10, 250 << 10, 65536 - 200}[r.Intn(3)]
			s.Devices = nil
			for i := 0; i < ndev; i++ {
				s.Devices = append(s.Devices, specs.Device{Name: fmt.Sprintf("dev%d", i),
					Annotations:    map[string]string{fmt.Sprintf("big-%d", i): strings.Repeat("y", per)},
					ContainerEdits: specs.ContainerEdits{Env: []string{fmt.Sprintf("D%d=1", i)}}})
			}
			descr = fmt.Sprintf("large document: %d devices with %d bytes of annotations each", ndev, per)
			tags["class"] = "large-document"
		case k < 6 && chance(r, 25):
			// annotation maps near the size limit (256 KiB each): spec level and devices separately
			s = c09Base(r)
			big := func(tag string, n int) map[string]string {
				return map[string]string{"big-" + tag: strings.Repeat("x", n), "k-" + tag: "v"}
			}
			sizes := [][2]int{{140 << 10, 140 << 10}, {262000, 262000}, {200 << 10, 100 << 10}, {262144 - 16, 10}}[r.Intn(4)]
			s.Annotations = big("spec", sizes[0])
			s.Devices[len(s.Devices)-1].Annotations = big("last", sizes[1])
			if chance(r, 50) {
				s.Devices[0].Annotations = big("first", sizes[1])
			}
			descr = fmt.Sprintf("annotation sizes: spec %d bytes, device %d bytes", sizes[0], sizes[1])
			tags["class"] = "annotation-size"
		case k < 6:
			// annotation keys of every shape; the ill-formed ones are not library-valid (then skipped)
			s = c09Base(r)
			key := pickStr(r, "a", "A.b-c_d", "example.com/key", "x.y.z/K", strings.Repeat("n", 63), strings.Repeat("n", 64), "a b", "-a", "a/", "/a", "a/b/c", "é", "\u212a", "UPPER.example.com/k", "x_y.com/k", "", "k.")
			if chance(r, 50) {
				s.Annotations = map[string]string{key: "v"}
			} else {
				s.Devices[0].Annotations = map[string]string{key: "v", "ok": "w"}
			}
			descr = fmt.Sprintf("annotation key: %q", key)
			tags["class"] = "annotation-key"
		default:
			s = c09Base(r)
			f := c09Fields[r.Intn(len(c09Fields))]
			class, val := gstr(r)
			if !f.set(s, val) {
				return
			}
			tags = strTraits(val)
			tags["field"], tags["class"] = f.name, class
			descr = fmt.Sprintf("%s = %q", f.name, val)
		}
		sub := filepath.Join(dir, sanitize(cs.Name))
		stem := "s"
		if chance(r, 20) {
			// characters that mean something in a URL, a pattern or a shell, in the
			// directory and in the file name: a path is a path
			sub = filepath.Join(dir, sanitize(cs.Name)+pickStr(r, "#1", "+a b", "%41%2F", "?q=1&r", " (x)", "[*]"))
			stem = pickStr(r, "s#0", "pod+ctr", "s%41", "s?x", "s 1", "s&t")
			c.Count("paths_with_url_or_pattern_characters", 1)
		}
		must(os.MkdirAll(sub, 0o755))
		defer os.RemoveAll(sub)
		cache, _ := cdi.NewCache(cdi.WithSpecDirs(sub), cdi.WithAutoRefresh(false))
		wit := func(extra map[string]any) map[string]any {
			m := map[string]any{"spec": s, "what": descr}
			for k, v := range extra {
				m[k] = v
			}
			return m
		}
		valid := true
		for _, enc := range []string{"json", "yaml"} {
			if err := cache.WriteSpec(cloneSpec(s), stem+"."+enc); err != nil {
				valid = false
			}
		}
		if tags["class"] != "" {
			c.Count("generated:"+tags["class"], 1)
		}
		if !valid {
			c.Count("skipped_not_library_valid", 1)
			return
		}
		c.Count("library_valid_specs", 1)
		if tags["class"] != "" {
			c.Count("library_valid:"+tags["class"], 1)
		}
		c.Distinct(fmt.Sprintf("%s|%s|%s|%s", tags["field"], tags["class"], descrKind(descr), mMinVersion(s)))
		var verr error
		if pv, st := guard(func() { verr = builtin.Validate(s) }); pv != nil {
			cs.Violation("panic", tags, fmt.Sprintf("Validate panics: %v", pv), wit(map[string]any{"stack": st}))
			return
		}
		if verr != nil {
			cs.Violation("object-rejected", tags, fmt.Sprintf("a Spec the library accepts fails the builtin schema (%s): %v", descr, verr), wit(nil))
			return
		}
		for _, enc := range []string{"json", "yaml"} {
			path := filepath.Join(sub, stem+"."+enc)
			data, _ := os.ReadFile(path)
			t := map[string]string{"encoding": enc}
			for k, v := range tags {
				t[k] = v
			}
			if err := builtin.ValidateFile(path); err != nil {
				cs.Violation("file-rejected", t, fmt.Sprintf("the %s file the library wrote fails ValidateFile (%s): %v", enc, descr, err), wit(map[string]any{"file": string(data)}))
				continue
			}
			if err := builtin.ValidateData(data); err != nil {
				cs.Violation("file-rejected", t, fmt.Sprintf("the %s data the library wrote fails ValidateData (%s): %v", enc, descr, err), wit(map[string]any{"file": string(data)}))
			}
		}
		mu.Lock()
		items = append(items, c18Item{Case: cs.Name, Spec: s, Tags: tags, Descr: descr})
		mu.Unlock()
	})
	// many validations at the same time (the cache validates on refresh while callers
	// validate on their own): what was accepted one at a time is accepted in a crowd
	if c.replayCase == "" {
		crowd := items
		if len(crowd) > 300 {
			crowd = crowd[:300]
		}
		docs := make([][]byte, len(crowd))
		for i, it := range crowd {
			docs[i] = specBytes(it.Spec, []string{"json", "yaml"}[i%2])
		}
		var cwg sync.WaitGroup
		var first atomic.Pointer[string]
		for g := 0; g < 16 && len(crowd) > 0; g++ {
			cwg.Add(1)
			go func(g int) {
				defer cwg.Done()
				rr := rand.New(rand.NewSource(c.Seed*100 + int64(g)))
				for k := 0; k < 2*len(crowd) && first.Load() == nil; k++ {
					i := rr.Intn(len(crowd))
					var e error
					var how string
					if pv, _ := guard(func() {
						if k%2 == 0 {
							how, e = "Validate", builtin.Validate(crowd[i].Spec)
						} else {
							how, e = "ValidateData", builtin.ValidateData(docs[i])
						}
					}); pv != nil {
						e = fmt.Errorf("panic: %v", pv)
					}
					c.Count("concurrent_validations", 1)
					if e != nil {
						msg := fmt.Sprintf("%s of the Spec of case %s (%s), accepted when validated alone, fails while 16 goroutines validate at the same time: %v", how, crowd[i].Case, crowd[i].Descr, e)
						first.CompareAndSwap(nil, &msg)
					}
				}
			}(g)
		}
		cwg.Wait()
		if m := first.Load(); m != nil {
			c.violation("crowd", "concurrent-rejected", nil, *m, nil)
		}
		c.Floor("concurrent_validations", 1000)
	}
	// Spec files as people write them by hand: scalars that are not spelt as strings
	// where strings are meant, explicit nulls for optional members, flow style,
	// comments. Whatever loads without a validator must load with the builtin schema
	// installed (checked in the children below)
	hand := []struct{ name, doc string }{
		{"plain.yaml", "cdiVersion: 0.6.0\nkind: vendor.com/gpu\ndevices:\n- name: dev0\n  containerEdits:\n    env: [A=b]\n"},
		{"numeric-name.yaml", "cdiVersion: 0.6.0\nkind: vendor.com/gpu\ndevices:\n- name: 0\n  containerEdits:\n    env: [A=b]\n"},
		{"numeric-option.yaml", "cdiVersion: 0.6.0\nkind: vendor.com/gpu\ndevices:\n- name: d\n  containerEdits:\n    mounts:\n    - {hostPath: /h, containerPath: /c, options: [ro, 1, true]}\n"},
		{"annotation-scalars.yaml", "cdiVersion: 0.6.0\nkind: vendor.com/gpu\nannotations:\n  revision: 3\n  enabled: true\n  ratio: 1.5\ndevices:\n- name: d\n  annotations: {n: 7}\n  containerEdits:\n    env: [A=b]\n"},
		{"null-annotations.yaml", "cdiVersion: 0.6.0\nkind: vendor.com/gpu\nannotations:\ndevices:\n- name: d\n  annotations: ~\n  containerEdits:\n    env: [A=b]\n"},
		{"null-lists.yaml", "cdiVersion: 0.6.0\nkind: vendor.com/gpu\ndevices:\n- name: d\n  containerEdits:\n    env: [A=b]\n    mounts: null\n    hooks: ~\n    deviceNodes:\n    additionalGids: null\n"},
		{"null-edits-members.json", `{"cdiVersion":"0.6.0","kind":"vendor.com/gpu","annotations":null,"containerEdits":null,"devices":[{"name":"d","annotations":null,"containerEdits":{"env":["A=b"],"mounts":null,"hooks":null,"deviceNodes":null,"intelRdt":null}}]}`},
		{"closid-number.json", `{"cdiVersion":"0.7.0","kind":"vendor.com/gpu","devices":[{"name":"d","containerEdits":{"intelRdt":{"closID":7}}}]}`},
		{"numeric-version.yaml", "cdiVersion: 1.0\nkind: vendor.com/gpu\ndevices:\n- name: d\n  containerEdits:\n    env: [A=b]\n"},
		{"flow-and-comments.yaml", "# a comment\n{cdiVersion: 0.6.0, kind: vendor.com/gpu, devices: [{name: d, containerEdits: {env: [A=b]}}]} # trailing\n"},
		{"anchors.yaml", "cdiVersion: 0.6.0\nkind: vendor.com/gpu\ndevices:\n- name: d\n  containerEdits: &e\n    env: [A=b]\n- name: e\n  containerEdits: *e\n"},
		{"hook-timeout-string.yaml", "cdiVersion: 0.6.0\nkind: vendor.com/gpu\ndevices:\n- name: d\n  containerEdits:\n    hooks:\n    - {hookName: prestart, path: /bin/h, timeout: \"5\"}\n"},
		{"numeric-env.yaml", "cdiVersion: 0.6.0\nkind: vendor.com/gpu\ndevices:\n- name: d\n  containerEdits:\n    env: [A=1, B=true]\n    deviceNodes:\n    - {path: /dev/x, major: \"1\", minor: 2, permissions: rw, uid: 0}\n"},
	}
	if c.replayCase == "" {
		hdir := filepath.Join(dir, "handwritten")
		must(os.MkdirAll(hdir, 0o755))
		for i, h := range hand {
			path := filepath.Join(hdir, h.name)
			must(os.WriteFile(path, []byte(h.doc), 0o644))
			_, err := cdi.ReadSpec(path, 0)
			os.Remove(path)
			c.Count("handwritten_files", 1)
			if err != nil {
				c.Count("handwritten_files_not_loadable_anyway", 1)
				continue
			}
			c.Count("handwritten_files_loadable", 1)
			items = append(items, c18Item{Case: fmt.Sprintf("hand:%d", i), Descr: "hand-written file " + h.name, Tags: map[string]string{"class": "hand-written"}, Raw: h.doc, RawName: h.name})
		}
		c.Floor("handwritten_files_loadable", 3)
	}
	// the validator installed as the Spec validator: dedicated children
	exe, err := os.Executable()
	must(err)
	byCase := map[string]c18Item{}
	for _, it := range items {
		byCase[it.Case] = it
	}
	const batchSize = 400
	var batches [][]c18Item
	for i := 0; i < len(items); i += batchSize {
		j := i + batchSize
		if j > len(items) {
			j = len(items)
		}
		batches = append(batches, items[i:j])
	}
	names := make([]string, len(batches))
	for i := range names {
		names[i] = fmt.Sprintf("validator-batch:%d", i)
	}
	if c.replayCase != "" {
		// replay of a single generated case: run it through one child too
		names = names[:0]
		if len(items) > 0 {
			batches = [][]c18Item{items}
			names = []string{c.replayCase}
		}
	}
	c.RunNamed(names, 0, func(cs *Case) {
		var bi int
		fmt.Sscanf(cs.Name, "validator-batch:%d", &bi)
		batch := batches[bi]
		bdir := filepath.Join(dir, sanitize(cs.Name)+"-b")
		must(os.MkdirAll(bdir, 0o755))
		bf := filepath.Join(bdir, "batch.jsonl")
		f, err := os.Create(bf)
		must(err)
		enc := json.NewEncoder(f)
		for _, it := range batch {
			must(enc.Encode(it))
		}
		f.Close()
		cmd := exec.Command(exe, "child-c18", bf, filepath.Join(bdir, "specs"))
		outf := filepath.Join(bdir, "out")
		of, _ := os.Create(outf)
		cmd.Stdout, cmd.Stderr = of, of
		rerr := cmd.Run()
		of.Close()
		data, _ := os.ReadFile(outf)
		done := map[string]bool{}
		sc := bufio.NewScanner(bytesReader(data))
		sc.Buffer(make([]byte, 1<<20), 1<<26)
		for sc.Scan() {
			var res c18Result
			if json.Unmarshal(sc.Bytes(), &res) != nil {
				continue
			}
			if res.Op == "done" {
				done[res.Case] = true
				c.Count("specs_through_installed_validator", 1)
				continue
			}
			it := byCase[res.Case]
			t := map[string]string{"encoding": res.Enc, "op": res.Op}
			for k, v := range it.Tags {
				t[k] = v
			}
			c.violation(res.Case, "validator-installed-"+res.Op, t, fmt.Sprintf("with the builtin schema installed as Spec validator %s (%s) fails for a Spec the library accepts (%s): %s", res.Op, res.Enc, it.Descr, res.Err), map[string]any{"spec": it.Spec})
		}
		if rerr != nil || len(done) != len(batch) {
			cs.Violation("child-died", nil, fmt.Sprintf("the process with the validator installed died (%v) after %d of %d Specs: %s", rerr, len(done), len(batch), clip(string(data[max(0, len(data)-2000):]), 2000)), nil)
		}
		os.RemoveAll(bdir)
	})
	c.Sample(3, map[string]any{"example": "hook timeout 4294967295, uid 4294967295, major 9223372036854775807: accepted by the library, must pass the schema as object, .json and .yaml"})
	if len(items) > 0 {
		c.Sample(3, map[string]any{"what": items[0].Descr, "spec": items[0].Spec})
	}
	c.Floor("library_valid_specs", 500)
	c.Floor("specs_through_installed_validator", 500)
}

func descrKind(d string) string {
	for i := 0; i < len(d); i++ {
		if d[i] == ':' || d[i] == '=' {
			return d[:i]
		}
	}
	return d
}
