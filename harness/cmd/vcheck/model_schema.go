package main

// M-SCHEMA: a JSON-Schema draft-07 evaluator written for the harness. It reads
// the shipped schema files at run time and is the reference for C17/C18.
// Instances and schemas are Go values decoded from JSON with UseNumber.

import (
	"bytes"
	"encoding/json"
	"fmt"
	"math/big"
	"os"
	"path/filepath"
	"regexp"
	"sort"
	"strings"
	"sync"
	"unicode/utf8"
)

type schemaSet struct {
	dir  string
	docs map[string]any
	mu   sync.Mutex
	// keyword instance -> [satisfied, violated]
	Cover map[string]*[2]int64
	reMu  sync.Mutex
	re    map[string]*regexp.Regexp
}

func decodeJSONNumber(data []byte) (any, error) {
	dec := json.NewDecoder(bytes.NewReader(data))
	dec.UseNumber()
	var v any
	if err := dec.Decode(&v); err != nil {
		return nil, err
	}
	// trailing data?
	var extra any
	if err := dec.Decode(&extra); err == nil {
		return nil, fmt.Errorf("trailing data")
	}
	return v, nil
}

func loadSchemaSet(dir string) (*schemaSet, error) {
	ss := &schemaSet{dir: dir, docs: map[string]any{}, Cover: map[string]*[2]int64{}, re: map[string]*regexp.Regexp{}}
	files, _ := filepath.Glob(filepath.Join(dir, "*.json"))
	for _, f := range files {
		data, err := os.ReadFile(f)
		if err != nil {
			return nil, err
		}
		v, err := decodeJSONNumber(data)
		if err != nil {
			return nil, fmt.Errorf("%s: %w", f, err)
		}
		ss.docs[filepath.Base(f)] = v
	}
	if _, ok := ss.docs["schema.json"]; !ok {
		return nil, fmt.Errorf("no schema.json in %s", dir)
	}
	return ss, nil
}

// Valid evaluates an instance against the root schema (schema.json).
func (ss *schemaSet) Valid(inst any) (ok bool, err error) {
	defer func() {
		if p := recover(); p != nil {
			ok, err = false, fmt.Errorf("schema model: %v", p)
		}
	}()
	return ss.eval("schema.json", "", ss.docs["schema.json"], inst, 0), nil
}

func (ss *schemaSet) cover(file, ptr, kw string, ok bool) {
	k := file + "#" + ptr + "/" + kw
	ss.mu.Lock()
	c := ss.Cover[k]
	if c == nil {
		c = &[2]int64{}
		ss.Cover[k] = c
	}
	if ok {
		c[0]++
	} else {
		c[1]++
	}
	ss.mu.Unlock()
}

func (ss *schemaSet) resolveRef(file, ref string) (string, string, any) {
	target, frag := file, ""
	if i := strings.IndexByte(ref, '#'); i >= 0 {
		if i > 0 {
			target = ref[:i]
		}
		frag = ref[i+1:]
	} else {
		target = ref
	}
	doc, ok := ss.docs[filepath.Base(target)]
	if !ok {
		panic(fmt.Sprintf("unresolvable $ref %q (file %s)", ref, file))
	}
	cur := doc
	if frag != "" {
		if !strings.HasPrefix(frag, "/") {
			panic(fmt.Sprintf("unsupported $ref fragment %q", ref))
		}
		for _, tok := range strings.Split(frag[1:], "/") {
			tok = strings.ReplaceAll(strings.ReplaceAll(tok, "~1", "/"), "~0", "~")
			switch x := cur.(type) {
			case map[string]any:
				nx, ok := x[tok]
				if !ok {
					panic(fmt.Sprintf("unresolvable $ref %q (file %s)", ref, file))
				}
				cur = nx
			case []any:
				var i int
				if _, err := fmt.Sscanf(tok, "%d", &i); err != nil || i < 0 || i >= len(x) {
					panic(fmt.Sprintf("unresolvable $ref %q", ref))
				}
				cur = x[i]
			default:
				panic(fmt.Sprintf("unresolvable $ref %q", ref))
			}
		}
	}
	return filepath.Base(target), frag, cur
}

func ratOf(n json.Number) *big.Rat {
	r, ok := new(big.Rat).SetString(n.String())
	if !ok {
		panic(fmt.Sprintf("bad number %q", n))
	}
	return r
}

func typeOf(v any) string {
	switch x := v.(type) {
	case nil:
		return "null"
	case bool:
		return "boolean"
	case string:
		return "string"
	case json.Number:
		if ratOf(x).IsInt() {
			return "integer"
		}
		return "number"
	case []any:
		return "array"
	case map[string]any:
		return "object"
	}
	panic(fmt.Sprintf("unexpected instance value %T", v))
}

func jsonEqual(a, b any) bool {
	switch x := a.(type) {
	case json.Number:
		y, ok := b.(json.Number)
		return ok && ratOf(x).Cmp(ratOf(y)) == 0
	case []any:
		y, ok := b.([]any)
		if !ok || len(x) != len(y) {
			return false
		}
		for i := range x {
			if !jsonEqual(x[i], y[i]) {
				return false
			}
		}
		return true
	case map[string]any:
		y, ok := b.(map[string]any)
		if !ok || len(x) != len(y) {
			return false
		}
		for k, v := range x {
			w, ok := y[k]
			if !ok || !jsonEqual(v, w) {
				return false
			}
		}
		return true
	}
	return a == b
}

func (ss *schemaSet) regex(p string) *regexp.Regexp {
	ss.reMu.Lock()
	defer ss.reMu.Unlock()
	if r, ok := ss.re[p]; ok {
		return r
	}
	r, err := regexp.Compile(p)
	if err != nil {
		panic(fmt.Sprintf("pattern %q: %v", p, err))
	}
	ss.re[p] = r
	return r
}

func (ss *schemaSet) eval(file, ptr string, schema any, inst any, depth int) bool {
	if depth > 200 {
		panic("schema recursion too deep")
	}
	switch s := schema.(type) {
	case bool:
		return s
	case map[string]any:
		if ref, ok := s["$ref"].(string); ok {
			// draft-07: siblings of $ref are ignored
			tf, tp, target := ss.resolveRef(file, ref)
			r := ss.eval(tf, tp, target, inst, depth+1)
			ss.cover(file, ptr, "$ref", r)
			return r
		}
		keys := make([]string, 0, len(s))
		for k := range s {
			keys = append(keys, k)
		}
		sort.Strings(keys)
		valid := true
		for _, kw := range keys {
			r, known := ss.keyword(file, ptr, s, kw, inst, depth)
			if !known {
				continue
			}
			ss.cover(file, ptr, kw, r)
			if !r {
				valid = false
			}
		}
		return valid
	}
	panic(fmt.Sprintf("schema at %s#%s is neither an object nor a boolean", file, ptr))
}

func (ss *schemaSet) sub(file, ptr, kw string, schema any, inst any, depth int) bool {
	return ss.eval(file, ptr+"/"+kw, schema, inst, depth+1)
}

func (ss *schemaSet) keyword(file, ptr string, s map[string]any, kw string, inst any, depth int) (result bool, known bool) {
	v := s[kw]
	num := func() *big.Rat {
		n, ok := v.(json.Number)
		if !ok {
			panic(fmt.Sprintf("%s#%s/%s: number expected", file, ptr, kw))
		}
		return ratOf(n)
	}
	intv := func() int {
		r := num()
		if !r.IsInt() || r.Sign() < 0 || !r.Num().IsInt64() {
			panic(fmt.Sprintf("%s#%s/%s: non-negative integer expected", file, ptr, kw))
		}
		return int(r.Num().Int64())
	}
	instNum, isNum := inst.(json.Number)
	instStr, isStr := inst.(string)
	instArr, isArr := inst.([]any)
	instObj, isObj := inst.(map[string]any)
	switch kw {
	case "type":
		t := typeOf(inst)
		match := func(want string) bool { return want == t || (want == "number" && t == "integer") }
		switch x := v.(type) {
		case string:
			return match(x), true
		case []any:
			for _, e := range x {
				if es, ok := e.(string); ok && match(es) {
					return true, true
				}
			}
			return false, true
		}
		panic("bad type keyword")
	case "enum":
		for _, e := range v.([]any) {
			if jsonEqual(e, inst) {
				return true, true
			}
		}
		return false, true
	case "const":
		return jsonEqual(v, inst), true
	case "multipleOf":
		if !isNum {
			return true, true
		}
		q := new(big.Rat).Quo(ratOf(instNum), num())
		return q.IsInt(), true
	case "maximum":
		return !isNum || ratOf(instNum).Cmp(num()) <= 0, true
	case "exclusiveMaximum":
		if _, isBool := v.(bool); isBool {
			return true, false // draft-04 form: not a draft-07 keyword value
		}
		return !isNum || ratOf(instNum).Cmp(num()) < 0, true
	case "minimum":
		return !isNum || ratOf(instNum).Cmp(num()) >= 0, true
	case "exclusiveMinimum":
		if _, isBool := v.(bool); isBool {
			return true, false
		}
		return !isNum || ratOf(instNum).Cmp(num()) > 0, true
	case "maxLength":
		return !isStr || utf8.RuneCountInString(instStr) <= intv(), true
	case "minLength":
		return !isStr || utf8.RuneCountInString(instStr) >= intv(), true
	case "pattern":
		return !isStr || ss.regex(v.(string)).MatchString(instStr), true
	case "items":
		if !isArr {
			return true, true
		}
		ok := true
		switch x := v.(type) {
		case []any:
			for i, e := range instArr {
				if i < len(x) {
					if !ss.sub(file, ptr, fmt.Sprintf("items/%d", i), x[i], e, depth) {
						ok = false
					}
				} else if ai, has := s["additionalItems"]; has {
					if !ss.sub(file, ptr, "additionalItems", ai, e, depth) {
						ok = false
					}
				}
			}
		default:
			for _, e := range instArr {
				if !ss.sub(file, ptr, "items", v, e, depth) {
					ok = false
				}
			}
		}
		return ok, true
	case "additionalItems":
		return true, false // handled with items
	case "maxItems":
		return !isArr || len(instArr) <= intv(), true
	case "minItems":
		return !isArr || len(instArr) >= intv(), true
	case "uniqueItems":
		if b, _ := v.(bool); !b || !isArr {
			return true, true
		}
		for i := range instArr {
			for j := i + 1; j < len(instArr); j++ {
				if jsonEqual(instArr[i], instArr[j]) {
					return false, true
				}
			}
		}
		return true, true
	case "contains":
		if !isArr {
			return true, true
		}
		for _, e := range instArr {
			if ss.sub(file, ptr, "contains", v, e, depth) {
				return true, true
			}
		}
		return false, true
	case "maxProperties":
		return !isObj || len(instObj) <= intv(), true
	case "minProperties":
		return !isObj || len(instObj) >= intv(), true
	case "required":
		if !isObj {
			return true, true
		}
		for _, e := range v.([]any) {
			if _, ok := instObj[e.(string)]; !ok {
				return false, true
			}
		}
		return true, true
	case "properties":
		if !isObj {
			return true, true
		}
		ok := true
		for name, sub := range v.(map[string]any) {
			if e, has := instObj[name]; has {
				if !ss.sub(file, ptr, "properties/"+strings.ReplaceAll(strings.ReplaceAll(name, "~", "~0"), "/", "~1"), sub, e, depth) {
					ok = false
				}
			}
		}
		return ok, true
	case "patternProperties":
		if !isObj {
			return true, true
		}
		ok := true
		for pat, sub := range v.(map[string]any) {
			re := ss.regex(pat)
			for name, e := range instObj {
				if re.MatchString(name) {
					if !ss.sub(file, ptr, "patternProperties/"+pat, sub, e, depth) {
						ok = false
					}
				}
			}
		}
		return ok, true
	case "additionalProperties":
		if !isObj {
			return true, true
		}
		props, _ := s["properties"].(map[string]any)
		pats, _ := s["patternProperties"].(map[string]any)
		ok := true
		for name, e := range instObj {
			if _, has := props[name]; has {
				continue
			}
			matched := false
			for pat := range pats {
				if ss.regex(pat).MatchString(name) {
					matched = true
				}
			}
			if matched {
				continue
			}
			if !ss.sub(file, ptr, "additionalProperties", v, e, depth) {
				ok = false
			}
		}
		return ok, true
	case "dependencies":
		if !isObj {
			return true, true
		}
		ok := true
		for name, dep := range v.(map[string]any) {
			if _, has := instObj[name]; !has {
				continue
			}
			switch d := dep.(type) {
			case []any:
				for _, e := range d {
					if _, has := instObj[e.(string)]; !has {
						ok = false
					}
				}
			default:
				if !ss.sub(file, ptr, "dependencies/"+name, dep, inst, depth) {
					ok = false
				}
			}
		}
		return ok, true
	case "propertyNames":
		if !isObj {
			return true, true
		}
		ok := true
		for name := range instObj {
			if !ss.sub(file, ptr, "propertyNames", v, name, depth) {
				ok = false
			}
		}
		return ok, true
	case "if":
		if ss.sub(file, ptr, "if", v, inst, depth) {
			if t, has := s["then"]; has {
				return ss.sub(file, ptr, "then", t, inst, depth), true
			}
		} else if e, has := s["else"]; has {
			return ss.sub(file, ptr, "else", e, inst, depth), true
		}
		return true, true
	case "then", "else":
		return true, false
	case "allOf":
		ok := true
		for i, sub := range v.([]any) {
			if !ss.sub(file, ptr, fmt.Sprintf("allOf/%d", i), sub, inst, depth) {
				ok = false
			}
		}
		return ok, true
	case "anyOf":
		ok := false
		for i, sub := range v.([]any) {
			if ss.sub(file, ptr, fmt.Sprintf("anyOf/%d", i), sub, inst, depth) {
				ok = true
			}
		}
		return ok, true
	case "oneOf":
		n := 0
		for i, sub := range v.([]any) {
			if ss.sub(file, ptr, fmt.Sprintf("oneOf/%d", i), sub, inst, depth) {
				n++
			}
		}
		return n == 1, true
	case "not":
		return !ss.sub(file, ptr, "not", v, inst, depth), true
	}
	// annotations, definitions, format, unknown keywords: ignored as the draft prescribes
	return true, false
}
