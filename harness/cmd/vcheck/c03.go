package main

// C03 — container edits are applied to the OCI spec with the documented
// semantics. Reference model M-APPLY, each clause checked separately.

import (
	"fmt"
	"math/rand"
	"os"
	"path/filepath"
	"reflect"
	"sort"
	"strings"

	oci "github.com/opencontainers/runtime-spec/specs-go"
	"golang.org/x/sys/unix"
	"tags.cncf.io/container-device-interface/pkg/cdi"
	specs "tags.cncf.io/container-device-interface/specs-go"
)

func init() { register("C03", checkC03) }

// mFill is the model of "takes type/major/minor from the host node when unspecified".
func mFill(e *specs.DeviceNode) (typ string, major, minor int64, err error) {
	typ, major, minor = e.Type, e.Major, e.Minor
	if typ != "" && (major != 0 || typ == "p") {
		return
	}
	host := e.HostPath
	if host == "" {
		host = e.Path
	}
	var st unix.Stat_t
	if err = unix.Lstat(host, &st); err != nil {
		return
	}
	var ht string
	switch st.Mode & unix.S_IFMT {
	case unix.S_IFBLK:
		ht = "b"
	case unix.S_IFCHR:
		ht = "c"
	case unix.S_IFIFO:
		ht = "p"
	default:
		err = fmt.Errorf("not a device node")
		return
	}
	if typ == "" {
		typ = ht
	} else if typ != ht {
		err = fmt.Errorf("type mismatch")
		return
	}
	if major == 0 && typ != "p" {
		major, minor = int64(unix.Major(uint64(st.Rdev))), int64(unix.Minor(uint64(st.Rdev)))
	}
	return
}

func envName(e string) string {
	if i := strings.IndexByte(e, '='); i >= 0 {
		return e[:i]
	}
	return e
}

func mountDepth(dest string) int {
	d := filepath.Clean(dest)
	if d == "/" {
		return 0
	}
	return strings.Count(d, "/")
}

type c03Sig struct{ parts []string }

func (s *c03Sig) add(format string, a ...any) { s.parts = append(s.parts, fmt.Sprintf(format, a...)) }

// c03Check compares before/after of one Apply against M-APPLY. It returns a
// (clause, message) list of discrepancies.
func c03Check(before, after *oci.Spec, e *specs.ContainerEdits, sig *c03Sig, c *Ctx) (bad [][2]string) {
	fail := func(clause, format string, a ...any) {
		bad = append(bad, [2]string{clause, fmt.Sprintf(format, a...)})
	}
	// ---- env
	var benv, aenv []string
	if before.Process != nil {
		benv = before.Process.Env
	}
	if after.Process != nil {
		aenv = after.Process.Env
	}
	edited := map[string]string{}
	for _, x := range e.Env {
		edited[envName(x)] = x
	}
	names := map[string]bool{}
	for _, x := range benv {
		names[envName(x)] = true
	}
	overridden := false
	for n := range edited {
		if names[n] {
			overridden = true
		}
		names[n] = true
	}
	anames := map[string]bool{}
	last := map[string]string{}
	for _, x := range aenv {
		anames[envName(x)] = true
		last[envName(x)] = x
	}
	if !reflect.DeepEqual(names, anames) && (len(names) > 0 || len(anames) > 0) {
		fail("env", "set of variable names after = %v, expected old ∪ edited = %v", keysOf(anames), keysOf(names))
	}
	for n, want := range edited {
		if last[n] != want {
			fail("env", "variable %s: effective (last) entry %q, the last edit is %q", n, last[n], want)
		}
	}
	restrict := func(env []string) []string {
		var out []string
		for _, x := range env {
			if _, ok := edited[envName(x)]; !ok {
				out = append(out, x)
			}
		}
		return out
	}
	if !reflect.DeepEqual(restrict(benv), restrict(aenv)) {
		fail("env", "entries of unedited variables changed: before %v after %v", restrict(benv), restrict(aenv))
	}
	if len(e.Env) > 0 {
		c.Count("clause:env", 1)
		if overridden {
			c.Count("clause:env_overrides_existing", 1)
			// informational: is the old entry replaced in place or shadowed?
			cnt := map[string]int{}
			for _, x := range aenv {
				cnt[envName(x)]++
			}
			for n := range edited {
				if cnt[n] > 1 {
					c.Count("env_shadowed_not_replaced", 1)
					break
				}
			}
		}
		sig.add("env%v", overridden)
	}
	// ---- devices
	var bdev, adev []oci.LinuxDevice
	var brules, arules []oci.LinuxDeviceCgroup
	var brdt, ardt *oci.LinuxIntelRdt
	if before.Linux != nil {
		bdev = before.Linux.Devices
		brdt = before.Linux.IntelRdt
		if before.Linux.Resources != nil {
			brules = before.Linux.Resources.Devices
		}
	}
	if after.Linux != nil {
		adev = after.Linux.Devices
		ardt = after.Linux.IntelRdt
		if after.Linux.Resources != nil {
			arules = after.Linux.Resources.Devices
		}
	}
	var puid, pgid uint32
	if before.Process != nil {
		puid, pgid = before.Process.User.UID, before.Process.User.GID
	}
	wantDev := map[string]oci.LinuxDevice{}
	var wantRules []oci.LinuxDeviceCgroup
	replaced, defaulted, looked := false, false, false
	for _, n := range e.DeviceNodes {
		typ, major, minor, err := mFill(n)
		if err != nil {
			fail("harness", "model cannot fill node %+v: %v", n, err)
			return
		}
		if typ != n.Type || major != n.Major {
			looked = true
		}
		d := oci.LinuxDevice{Path: n.Path, Type: typ, Major: major, Minor: minor, FileMode: n.FileMode, UID: n.UID, GID: n.GID}
		if d.UID == nil && puid > 0 {
			u := puid
			d.UID = &u
			defaulted = true
		}
		if d.GID == nil && pgid > 0 {
			g := pgid
			d.GID = &g
			defaulted = true
		}
		wantDev[n.Path] = d
		if typ == "b" || typ == "c" {
			acc := n.Permissions
			if acc == "" {
				acc = "rwm"
			}
			mj, mn := major, minor
			wantRules = append(wantRules, oci.LinuxDeviceCgroup{Allow: true, Type: typ, Major: &mj, Minor: &mn, Access: acc})
		}
	}
	seen := map[string]int{}
	for _, d := range adev {
		seen[d.Path]++
	}
	for p, w := range wantDev {
		if seen[p] != 1 {
			fail("devices", "%d device nodes with container path %s after applying, expected exactly one", seen[p], p)
			continue
		}
		for _, d := range adev {
			if d.Path == p && exactJSON(d) != exactJSON(w) {
				fail("devices", "device %s is %s, expected (last edit, host info and uid/gid filled in) %s", p, exactJSON(d), exactJSON(w))
			}
		}
	}
	var bOther, aOther []oci.LinuxDevice
	for _, d := range bdev {
		if _, ok := wantDev[d.Path]; !ok {
			bOther = append(bOther, d)
		} else {
			replaced = true
		}
	}
	for _, d := range adev {
		if _, ok := wantDev[d.Path]; !ok {
			aOther = append(aOther, d)
		}
	}
	if exactJSON(bOther) != exactJSON(aOther) {
		fail("devices", "untouched device nodes changed: before %s after %s", exactJSON(bOther), exactJSON(aOther))
	}
	if len(e.DeviceNodes) > 0 {
		c.Count("clause:devices", 1)
		if replaced {
			c.Count("clause:devices_replace_existing", 1)
		}
		if defaulted {
			c.Count("clause:devices_uidgid_defaulted", 1)
		}
		if looked {
			c.Count("clause:devices_host_lookup", 1)
		}
		sig.add("dev%v%v%v", replaced, defaulted, looked)
	}
	// ---- cgroup rules: old list is a prefix, suffix = rules of the b/c nodes in order
	if len(arules) < len(brules) || exactJSON(arules[:len(brules)]) != exactJSON(brules) {
		fail("cgroup", "existing device cgroup rules are not a prefix of the result: before %s after %s", exactJSON(brules), exactJSON(arules))
	} else {
		dedup := func(rs []oci.LinuxDeviceCgroup) []string {
			var out []string
			s := map[string]bool{}
			for _, r := range rs {
				k := exactJSON(r) // a rule without minor (= every minor) is not the rule for minor 0
				if !s[k] {
					s[k] = true
					out = append(out, k)
				}
			}
			return out
		}
		if got, want := dedup(arules[len(brules):]), dedup(wantRules); !reflect.DeepEqual(got, want) {
			fail("cgroup", "appended device cgroup rules %v, expected %v", got, want)
		}
		for _, r := range arules[len(brules):] {
			if !r.Allow {
				fail("cgroup", "appended rule is not an allow rule: %s", normJSON(r))
			}
		}
	}
	if len(wantRules) > 0 {
		c.Count("clause:cgroup", 1)
		sig.add("cg%v", len(brules) > 0)
	}
	// ---- mounts
	if len(e.Mounts) == 0 {
		if normJSON(before.Mounts) != normJSON(after.Mounts) {
			fail("mounts", "mounts changed although the edits have none: before %s after %s", normJSON(before.Mounts), normJSON(after.Mounts))
		}
	} else {
		lastIdx := map[string]int{}
		for i, m := range e.Mounts {
			lastIdx[m.ContainerPath] = i
		}
		type item struct {
			m        oci.Mount
			anchored bool
		}
		var T []item
		replacedM := false
		existing := map[string]bool{}
		for _, m := range before.Mounts {
			existing[m.Destination] = true
			if _, ok := lastIdx[m.Destination]; ok {
				replacedM = true
				continue
			}
			T = append(T, item{m, true})
		}
		repeated := len(lastIdx) != len(e.Mounts)
		for i, m := range e.Mounts {
			if lastIdx[m.ContainerPath] != i {
				continue
			}
			T = append(T, item{oci.Mount{Source: m.HostPath, Destination: m.ContainerPath, Options: m.Options, Type: m.Type}, !existing[m.ContainerPath] && !repeated})
		}
		// (1) multiset
		ms := func(ms []oci.Mount) []string {
			var out []string
			for _, m := range ms {
				out = append(out, normJSON(m))
			}
			sort.Strings(out)
			return out
		}
		var wantAll []oci.Mount
		for _, it := range T {
			wantAll = append(wantAll, it.m)
		}
		if !reflect.DeepEqual(ms(after.Mounts), ms(wantAll)) {
			fail("mounts", "mounts after applying %v, expected one per destination with the last edit's content: %v", ms(after.Mounts), ms(wantAll))
		} else {
			// (2) ordered by depth
			for i := 1; i < len(after.Mounts); i++ {
				if mountDepth(after.Mounts[i-1].Destination) > mountDepth(after.Mounts[i].Destination) {
					fail("mounts", "mounts not ordered by destination depth: %s (depth %d) before %s (depth %d)", after.Mounts[i-1].Destination, mountDepth(after.Mounts[i-1].Destination), after.Mounts[i].Destination, mountDepth(after.Mounts[i].Destination))
					break
				}
			}
			// (3) stable: equal-depth anchored items keep their previous order
			pos := map[string]int{}
			for i, m := range after.Mounts {
				pos[m.Destination] = i
			}
			var anch []oci.Mount
			for _, it := range T {
				if it.anchored {
					anch = append(anch, it.m)
				}
			}
			for i := 0; i < len(anch); i++ {
				for j := i + 1; j < len(anch); j++ {
					if mountDepth(anch[i].Destination) == mountDepth(anch[j].Destination) && pos[anch[i].Destination] > pos[anch[j].Destination] {
						fail("mounts", "sorting is not stable: %s was before %s (same depth) and is now after it", anch[i].Destination, anch[j].Destination)
						i = len(anch)
						break
					}
				}
			}
		}
		c.Count("clause:mounts", 1)
		if replacedM {
			c.Count("clause:mounts_replace_existing", 1)
		}
		if repeated {
			c.Count("clause:mounts_repeated_destination", 1)
		}
		if len(after.Mounts) >= 13 {
			c.Count("clause:mounts_13_or_more", 1)
		}
		sig.add("mnt%v%v%d", replacedM, repeated, len(after.Mounts)/5)
	}
	// ---- hooks
	stage := func(h *oci.Hooks, name string) []oci.Hook {
		if h == nil {
			return nil
		}
		switch name {
		case "prestart":
			return h.Prestart
		case "createRuntime":
			return h.CreateRuntime
		case "createContainer":
			return h.CreateContainer
		case "startContainer":
			return h.StartContainer
		case "poststart":
			return h.Poststart
		}
		return h.Poststop
	}
	for _, name := range hookNames {
		want := append([]oci.Hook{}, stage(before.Hooks, name)...)
		for _, h := range e.Hooks {
			if h.HookName == name {
				want = append(want, oci.Hook{Path: h.Path, Args: h.Args, Env: h.Env, Timeout: h.Timeout})
			}
		}
		if got := stage(after.Hooks, name); exactJSON(got) != exactJSON(want) && (len(got) > 0 || len(want) > 0) {
			fail("hooks", "%s hooks are %s, expected the old ones followed by the edits' in order: %s", name, exactJSON(got), exactJSON(want))
		}
	}
	if len(e.Hooks) > 0 {
		c.Count("clause:hooks", 1)
		sig.add("hooks%v", before.Hooks != nil)
	}
	// ---- additional GIDs
	var bg, ag []uint32
	if before.Process != nil {
		bg = before.Process.User.AdditionalGids
	}
	if after.Process != nil {
		ag = after.Process.User.AdditionalGids
	}
	wantG := append([]uint32{}, bg...)
	for _, g := range e.AdditionalGIDs {
		if g == 0 {
			continue
		}
		dup := false
		for _, x := range wantG {
			if x == g {
				dup = true
			}
		}
		if !dup {
			wantG = append(wantG, g)
		}
	}
	if !reflect.DeepEqual(ag, wantG) && (len(ag) > 0 || len(wantG) > 0) {
		fail("gids", "additional GIDs %v, expected %v (old ones, then each new non-zero GID not yet present)", ag, wantG)
	}
	if len(e.AdditionalGIDs) > 0 {
		c.Count("clause:gids", 1)
		sig.add("gid%v", len(bg) > 0)
	}
	// ---- intel rdt
	wantRdt := brdt
	if e.IntelRdt != nil {
		wantRdt = &oci.LinuxIntelRdt{ClosID: e.IntelRdt.ClosID, L3CacheSchema: e.IntelRdt.L3CacheSchema, MemBwSchema: e.IntelRdt.MemBwSchema, EnableCMT: e.IntelRdt.EnableCMT, EnableMBM: e.IntelRdt.EnableMBM}
		c.Count("clause:rdt", 1)
		if brdt != nil {
			c.Count("clause:rdt_replaces_existing", 1)
		}
		sig.add("rdt%v", brdt != nil)
	}
	if normJSON(ardt) != normJSON(wantRdt) {
		fail("rdt", "intelRdt is %s, expected %s", normJSON(ardt), normJSON(wantRdt))
	}
	// ---- everything else unchanged
	strip := func(s *oci.Spec) string {
		x := cloneOCI(s)
		x.Mounts = nil
		x.Hooks = nil
		if x.Process != nil {
			x.Process.Env = nil
			x.Process.User.AdditionalGids = nil
		}
		if x.Linux != nil {
			x.Linux.Devices = nil
			x.Linux.IntelRdt = nil
			if x.Linux.Resources != nil {
				x.Linux.Resources.Devices = nil
			}
		}
		return normJSON(x) // a section created empty to hold an edit is no change
	}
	if b, a := strip(before), strip(after); b != a {
		fail("rest", "something else in the OCI spec changed: before %s after %s", b, a)
	}
	return
}

func keysOf(m map[string]bool) []string {
	var out []string
	for k := range m {
		out = append(out, k)
	}
	sort.Strings(out)
	return out
}

// genC03Edits generates valid edits that interact with the given OCI spec.
func genC03Edits(r *rand.Rand, s *oci.Spec, hosts []HostNode) *specs.ContainerEdits {
	e := &specs.ContainerEdits{}
	// env
	// names that are prefixes, extensions and case variants of each other: a
	// variable is identified by its whole name
	envPool := []string{"NEW1", "NEW2", "CDI_X", "NEW", "NEW1_MODE", "new1", "CDI_X_MODE", "CDI", "N"}
	if s.Process != nil {
		for _, x := range s.Process.Env {
			n := envName(x)
			envPool = append(envPool, n, n+"_2", n+"2")
			if len(n) > 1 {
				envPool = append(envPool, n[:len(n)-1], n[:1])
			}
		}
	}
	for i := 0; i < r.Intn(8); i++ {
		e.Env = append(e.Env, envPool[r.Intn(len(envPool))]+"="+pickStr(r, "", "v", "a=b", "x y", fmt.Sprint(r.Intn(9))))
	}
	// device nodes
	devPool := []string{"/dev/n1", "/dev/n2", "/dev/n3", "/dev/n", "/dev/n10", "/dev/n1/sub", "/dev/N1"}
	if s.Linux != nil {
		for _, d := range s.Linux.Devices {
			devPool = append(devPool, d.Path)
		}
	}
	var real []HostNode
	for _, h := range hosts {
		if h.Type == "b" || h.Type == "c" || h.Type == "p" {
			real = append(real, h)
		}
	}
	if chance(r, 70) {
		for i := 0; i < 1+r.Intn(4); i++ {
			h := real[r.Intn(len(real))]
			n := &specs.DeviceNode{Path: devPool[r.Intn(len(devPool))]}
			switch r.Intn(6) {
			case 0: // fully specified, no lookup
				n.Type, n.Major, n.Minor = pickStr(r, "b", "c"), int64(1+r.Intn(200)), int64(r.Intn(200))
			case 1: // fifo fully specified
				n.Type = "p"
			case 2: // type only: major/minor from the host
				n.HostPath, n.Type = h.Path, h.Type
			case 3: // nothing: everything from the host
				n.HostPath = h.Path
			case 4: // the container path itself is the host node
				n.Path = h.Path
			case 5: // numbers but no type
				n.HostPath, n.Major, n.Minor = h.Path, int64(1+r.Intn(200)), int64(r.Intn(200))
			}
			if chance(r, 40) {
				n.UID = u32p(uint32(r.Intn(3) * 500))
			}
			if chance(r, 40) {
				n.GID = u32p(uint32(r.Intn(3) * 500))
			}
			if chance(r, 50) {
				n.Permissions = pickStr(r, "r", "w", "m", "rw", "rwm", "mr")
			}
			if chance(r, 30) {
				n.FileMode = fmode(uint32(r.Intn(0o1000)))
			}
			e.DeviceNodes = append(e.DeviceNodes, n)
		}
	}
	// mounts
	mntPool := []string{"/", "/new", "/new/sub", "/a/b/c/d/e", "/n1", "/n2", "/n3", "/n4", "/n5/x", "/n6/x", "/n7/x/y", "/n", "/n10", "/new2", "/N1"}
	for _, m := range s.Mounts {
		mntPool = append(mntPool, m.Destination)
	}
	if chance(r, 70) {
		n := 1 + r.Intn(5)
		if chance(r, 15) {
			n = 8 + r.Intn(6)
		}
		for i := 0; i < n; i++ {
			m := &specs.Mount{HostPath: fmt.Sprintf("/host/%d", r.Intn(100)), ContainerPath: mntPool[r.Intn(len(mntPool))]}
			if chance(r, 50) {
				m.Options = []string{"ro", "nosuid"}[:1+r.Intn(2)]
			}
			if chance(r, 40) {
				m.Type = pickStr(r, "bind", "tmpfs")
			}
			e.Mounts = append(e.Mounts, m)
		}
	}
	// hooks
	for i := 0; i < r.Intn(5); i++ {
		h := &specs.Hook{HookName: hookNames[r.Intn(len(hookNames))], Path: fmt.Sprintf("/new/hook%d", i)}
		if chance(r, 50) {
			h.Args = []string{"h", fmt.Sprint(i)}
		}
		if chance(r, 30) {
			h.Env = []string{"HK=1"}
		}
		if chance(r, 30) {
			h.Timeout = intp(r.Intn(100))
		}
		e.Hooks = append(e.Hooks, h)
	}
	// gids
	for i := 0; i < r.Intn(5); i++ {
		e.AdditionalGIDs = append(e.AdditionalGIDs, uint32([]int{0, 5, 10, 44, 77, 77, 4294967295}[r.Intn(7)]))
	}
	if chance(r, 30) {
		e.IntelRdt = &specs.IntelRdt{ClosID: pickStr(r, "newclos", ""), L3CacheSchema: pickStr(r, "", "L3:0=ff"), MemBwSchema: pickStr(r, "", "MB:0=10"), EnableMBM: chance(r, 50)}
	}
	return e
}

func cloneEdits(e *specs.ContainerEdits) *specs.ContainerEdits {
	s := cloneSpec(&specs.Spec{ContainerEdits: *e})
	return &s.ContainerEdits
}

func checkC03(c *Ctx) {
	c.Rule = "seeded (initial OCI spec, valid edit list) pairs with forced interactions (edited names/paths/destinations drawn from those already in the OCI spec, repetitions inside the edits, host nodes of type c/b/p created with mknod, process uid/gid zero or not, up to 20 mounts), applied through ContainerEdits.Apply, Device.ApplyEdits and Spec.ApplyEdits; each clause of M-APPLY is checked separately; distinct_nontrivial = distinct clause-interaction signatures (which clauses were exercised, with/without pre-existing state, replacement, defaulting, host lookup)"
	c.Assume("M-APPLY (c03.go) transcribes the statement of C03", "env: the effective value is the last entry with that name (the statement does not say the old entry must be rewritten in place)", "positions of replaced device nodes and of mounts that replace an existing mount are not constrained", "device nodes of type 'u', relative mount destinations and destinations equal only after cleaning are outside the generator")
	hosts, err := makeHostNodes(filepath.Join(c.Scratch, "hostdev"))
	if err != nil {
		c.HarnessError("cannot create host device nodes (mknod): %v", err)
		return
	}
	specDir := filepath.Join(c.Scratch, "specs")
	must(os.MkdirAll(specDir, 0o755))
	n := c.pick(6000, 300000)
	c.RunCases("gen", n, 0, func(cs *Case) {
		r := cs.R
		s := genOCI(r)
		e := genC03Edits(r, s, hosts)
		before := cloneOCI(s)
		eBefore := cloneEdits(e)
		entry := "ContainerEdits.Apply"
		var applyErr error
		apply := func() { applyErr = (&cdi.ContainerEdits{ContainerEdits: e}).Apply(s) }
		if !editsEmpty(e) && chance(r, 40) {
			// through a loaded Spec: device level or spec level
			raw := &specs.Spec{Version: "1.0.0", Kind: "vendor.com/cls"}
			if chance(r, 50) {
				entry = "Device.ApplyEdits"
				raw.Devices = []specs.Device{{Name: "d", ContainerEdits: *e}}
			} else {
				entry = "Spec.ApplyEdits"
				raw.ContainerEdits = *e
				raw.Devices = []specs.Device{{Name: "d", ContainerEdits: specs.ContainerEdits{Env: []string{"UNUSED=1"}}}}
			}
			path := filepath.Join(specDir, sanitize(cs.Name)+".json")
			must(os.WriteFile(path, specBytes(raw, "json"), 0o644))
			loaded, err := cdi.ReadSpec(path, 0)
			os.Remove(path)
			if err != nil {
				cs.Violation("valid-edits-rejected", nil, fmt.Sprintf("ReadSpec rejects a Spec with valid edits: %v", err), map[string]any{"edits": eBefore})
				return
			}
			if entry == "Device.ApplyEdits" {
				apply = func() { applyErr = loaded.GetDevice("d").ApplyEdits(s) }
			} else {
				apply = func() { applyErr = loaded.ApplyEdits(s) }
			}
		}
		wit := func() map[string]any {
			return map[string]any{"entry": entry, "oci_before": before, "edits": eBefore, "oci_after": s, "host_nodes": hosts}
		}
		if pv, st := guard(apply); pv != nil {
			cs.Violation("panic", nil, fmt.Sprintf("%s panics: %v", entry, pv), map[string]any{"w": wit(), "stack": st})
			return
		}
		if applyErr != nil {
			cs.Violation("valid-edits-failed", nil, fmt.Sprintf("%s fails on valid edits: %v", entry, applyErr), wit())
			return
		}
		c.Count("entry:"+entry, 1)
		var sig c03Sig
		sig.add(entry)
		bad := c03Check(before, s, eBefore, &sig, c)
		c.Distinct(strings.Join(sig.parts, "|"))
		if len(bad) > 0 {
			var all []string
			for _, b := range bad {
				all = append(all, b[0]+": "+b[1])
			}
			cs.Violation("clause-"+bad[0][0], map[string]string{"clause": bad[0][0]}, bad[0][1], map[string]any{"discrepancies": all, "w": wit()})
			return
		}
		c.Sample(3, map[string]any{"entry": entry, "edits": eBefore, "oci_before": before, "oci_after": s})
	})
	// error cases: only "an error, never a panic"
	c.RunCases("err", c.pick(200, 5000), 0, func(cs *Case) {
		r := cs.R
		s := genOCI(r)
		var bads []HostNode
		for _, h := range hosts {
			if h.Type == "" || h.Type == "missing" {
				bads = append(bads, h)
			}
		}
		badHost := bads[r.Intn(len(bads))]
		c.Count("error_host:"+filepath.Base(badHost.Path), 1)
		n := &specs.DeviceNode{Path: "/dev/x", HostPath: badHost.Path}
		if chance(r, 30) {
			// type mismatch with a real node
			n.HostPath, n.Type = hosts[0].Path, "b"
		}
		e := &specs.ContainerEdits{DeviceNodes: []*specs.DeviceNode{n}}
		var err error
		if pv, st := guard(func() { err = (&cdi.ContainerEdits{ContainerEdits: e}).Apply(s) }); pv != nil {
			cs.Violation("panic", nil, fmt.Sprintf("Apply panics: %v", pv), map[string]any{"edits": e, "stack": st})
			return
		}
		if err == nil {
			cs.Violation("host-error-ignored", nil, fmt.Sprintf("Apply succeeds although host node %s (%s) cannot provide the device info", n.HostPath, badHost.Type), map[string]any{"edits": e, "oci_after": s})
		}
		c.Count("error_cases", 1)
	})
	for _, k := range []string{"clause:env", "clause:env_overrides_existing", "clause:devices", "clause:devices_replace_existing", "clause:devices_uidgid_defaulted", "clause:devices_host_lookup", "clause:cgroup", "clause:mounts", "clause:mounts_replace_existing", "clause:mounts_repeated_destination", "clause:mounts_13_or_more", "clause:hooks", "clause:gids", "clause:rdt", "clause:rdt_replaces_existing", "entry:Device.ApplyEdits", "entry:Spec.ApplyEdits"} {
		c.Floor(k, 20)
	}
}
