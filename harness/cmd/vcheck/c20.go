package main

// C20 — reconfiguring a cache equals creating a new one, with bounded
// resources. Every history runs in its own child process (exact accounting of
// descriptors, inotify watches and goroutines; descriptor exhaustion cannot
// hurt the harness). The parent generates the history and decides.

import (
	"bufio"
	"encoding/json"
	"fmt"
	"os"
	"os/exec"
	"path/filepath"
	"runtime"
	"sort"
	"strconv"
	"strings"
	"sync/atomic"
	"syscall"
	"time"

	"tags.cncf.io/container-device-interface/pkg/cdi"
)

func init() {
	register("C20", checkC20)
	registerChild("c20", childC20)
}

type c20Step struct {
	Op      string   `json:"op"`
	Dirs    []string `json:"dirs,omitempty"`
	Auto    *bool    `json:"auto,omitempty"`
	Path    string   `json:"path,omitempty"`
	Content string   `json:"content,omitempty"`
	Mode    string   `json:"mode,omitempty"`
	Note    string   `json:"note,omitempty"`
	NoDirs  bool     `json:"no_dirs,omitempty"` // the directory option is given, with an empty list
}

type c20Obs struct {
	Step       int               `json:"step"`
	Op         string            `json:"op"`
	Devices    map[string]string `json:"devices,omitempty"`
	Listings   map[string]string `json:"listings,omitempty"` // vendors, classes, Spec files per vendor
	FirstQuery string            `json:"first_query,omitempty"`
	ErrKeys    []string          `json:"err_keys,omitempty"`
	DirErrKeys []string          `json:"dir_err_keys,omitempty"`
	ErrMsgs    map[string]string `json:"err_msgs,omitempty"`
	Dirs       []string          `json:"dirs,omitempty"`
	Fds        int               `json:"fds"`
	InotifyFds int               `json:"inotify_fds"`
	WatchedIno []uint64          `json:"watched_inodes,omitempty"`
	Goroutines int               `json:"goroutines"`
	Err        string            `json:"err,omitempty"`
	Panic      string            `json:"panic,omitempty"`
	// EnvSuspect: an auto-refresh cache was set up without any descriptor shortage
	// injected by the script, yet reports that it could not create its watcher:
	// the machine had no inotify instance left for this user at that moment.
	EnvSuspect bool `json:"env_suspect,omitempty"`
	// EnvConfirmed: a probe made at once (inotify_init1) failed as well
	EnvConfirmed bool `json:"env_confirmed,omitempty"`
}

func c20Resources() (fds, inotifyFds int, watched []uint64, goroutines int) {
	sample := func() (int, int, []uint64, int) {
		entries, _ := os.ReadDir("/proc/self/fd")
		n, in := 0, 0
		var ws []uint64
		for _, e := range entries {
			target, err := os.Readlink("/proc/self/fd/" + e.Name())
			if err != nil {
				continue // the descriptor used for listing itself
			}
			n++
			if strings.Contains(target, "inotify") {
				in++
				data, _ := os.ReadFile("/proc/self/fdinfo/" + e.Name())
				for _, line := range strings.Split(string(data), "\n") {
					if strings.HasPrefix(line, "inotify ") {
						for _, f := range strings.Fields(line) {
							if strings.HasPrefix(f, "ino:") {
								v, _ := strconv.ParseUint(f[4:], 16, 64)
								ws = append(ws, v)
							}
						}
					}
				}
			}
		}
		buf := make([]byte, 1<<20)
		buf = buf[:runtime.Stack(buf, true)]
		g := 0
		for _, st := range strings.Split(string(buf), "\n\n") {
			if strings.Contains(st, "pkg/cdi.(*watch).watch") || strings.Contains(st, "fsnotify.(*Watcher).readEvents") {
				g++
			}
		}
		sort.Slice(ws, func(i, j int) bool { return ws[i] < ws[j] })
		return n, in, ws, g
	}
	// goroutines of a stopped watcher exit asynchronously: poll (bounded) until
	// two samples 20 ms apart agree
	var pf, pi, pg int = -1, -1, -1
	for i := 0; i < 250; i++ {
		f, in, w, g := sample()
		if f == pf && in == pi && g == pg && i > 2 {
			return f, in, w, g
		}
		pf, pi, pg = f, in, g
		fds, inotifyFds, watched, goroutines = f, in, w, g
		time.Sleep(20 * time.Millisecond)
	}
	return
}

// childC20 executes a scripted history read from the file given as argument.
func childC20(args []string) int {
	data, err := os.ReadFile(args[0])
	if err != nil {
		return 2
	}
	var script struct {
		Root    string    `json:"root"`
		Anchor  string    `json:"anchor"`
		Default bool      `json:"default"`
		Steps   []c20Step `json:"steps"`
		Turn    int       `json:"turn"`
	}
	if err := json.Unmarshal(data, &script); err != nil {
		return 2
	}
	out := json.NewEncoder(os.Stdout)
	var cache *cdi.Cache
	seen := make(chan string, 4096)
	var hold atomic.Pointer[chan struct{}]
	heldNow := make(chan struct{}, 1)
	var armedWrite atomic.Pointer[c20Step]
	fire := func() {
		if st := armedWrite.Swap(nil); st != nil {
			os.MkdirAll(filepath.Dir(st.Path), 0o755)
			os.WriteFile(st.Path, []byte(st.Content), 0o644)
		}
	}
	hookPrefix(script.Root, func(point, arg string, n int) {
		if point == "scan.beforeRead" {
			fire() // a change that lands in the middle of a directory scan (e.g. Configure's own)
			return
		}
		if point != "watch.event" {
			return
		}
		if strings.HasSuffix(arg, ".sentinel") {
			select {
			case seen <- filepath.Base(arg):
			default:
			}
			return
		}
		if hp := hold.Load(); hp != nil {
			select {
			case heldNow <- struct{}{}:
			default:
			}
			<-*hp
		}
	})
	seq := 0
	quiesce := func() bool {
		// without an inotify instance (none could be created during a shortage)
		// there is no watcher goroutine to wait for: every query rescans
		hasInotify := false
		entries, _ := os.ReadDir("/proc/self/fd")
		for _, e := range entries {
			if t, err := os.Readlink("/proc/self/fd/" + e.Name()); err == nil && strings.Contains(t, "inotify") {
				hasInotify = true
			}
		}
		if !hasInotify {
			return true
		}
		var names []string
		for try := 0; try < 6; try++ {
			seq++
			name := fmt.Sprintf(".q%d.sentinel", seq)
			f, err := os.Create(filepath.Join(script.Anchor, name))
			if err != nil {
				return false
			}
			f.Close()
			names = append(names, name)
			deadline := time.After([]time.Duration{1, 1, 2, 4, 8, 16}[try] * time.Second)
		wait:
			for {
				select {
				case got := <-seen:
					for _, n := range names {
						if got == n {
							return true
						}
					}
				case <-deadline:
					break wait
				}
			}
		}
		return false
	}
	stateTurn := script.Turn
	state := func(c *cdi.Cache, o *c20Obs) {
		o.Devices = map[string]string{}
		o.Listings = map[string]string{}
		// every query brings the cache up to date by itself: which one is asked first
		// changes from observation to observation, what they answer must not
		groups := []struct {
			name string
			run  func()
		}{
			{"ListDevices", func() {
				for _, q := range c.ListDevices() {
					d := c.GetDevice(q)
					if d == nil {
						o.Devices[q] = "<nil>"
						continue
					}
					o.Devices[q] = fmt.Sprintf("%s@%d %s", d.GetSpec().GetPath(), d.GetSpec().GetPriority(), normJSON(d.Device))
				}
			}},
			{"ListVendors", func() { o.Listings["vendors"] = fmt.Sprint(c.ListVendors()) }},
			{"ListClasses", func() { o.Listings["classes"] = fmt.Sprint(c.ListClasses()) }},
			{"GetVendorSpecs", func() {
				for _, v := range []string{"vendor.com", "acme.io", "vendor1.com", "vendor2.com"} {
					var ps []string
					for _, sp := range c.GetVendorSpecs(v) {
						ps = append(ps, fmt.Sprintf("%s@%d", sp.GetPath(), sp.GetPriority()))
					}
					sort.Strings(ps)
					if len(ps) > 0 {
						o.Listings["specs of "+v] = fmt.Sprint(ps)
					}
				}
			}},
		}
		stateTurn++
		o.FirstQuery = groups[stateTurn%len(groups)].name
		for k := range groups {
			groups[(stateTurn+k)%len(groups)].run()
		}
		o.ErrMsgs = map[string]string{}
		for k, errs := range c.GetErrors() {
			o.ErrKeys = append(o.ErrKeys, k)
			o.ErrMsgs[k] = clip(fmt.Sprint(errs), 300)
		}
		for k := range c.GetSpecDirErrors() {
			o.DirErrKeys = append(o.DirErrKeys, k)
		}
		sort.Strings(o.ErrKeys)
		sort.Strings(o.DirErrKeys)
		o.Dirs = c.GetSpecDirectories()
	}
	options := func(st c20Step) []cdi.Option {
		var opts []cdi.Option
		if st.Dirs != nil || st.NoDirs {
			opts = append(opts, cdi.WithSpecDirs(st.Dirs...))
		}
		if st.Auto != nil {
			opts = append(opts, cdi.WithAutoRefresh(*st.Auto))
		}
		return opts
	}
	var em struct {
		active bool
		limit  syscall.Rlimit
		fds    []int
	}
	autoNow := true // the library's default
	for i, st := range script.Steps {
		obs := c20Obs{Step: i, Op: st.Op}
		pv, stack := guard(func() {
			defer func() {
				switch st.Op {
				case "new", "configure", "fresh":
					// the caller goes on using the slice it passed: the cache must not care
					for i := range st.Dirs {
						st.Dirs[i] = "/nonexistent/reused-by-the-caller"
					}
				}
				switch st.Op {
				case "new", "configure":
					if st.Auto != nil {
						autoNow = *st.Auto
					}
					if !em.active && autoNow && cache != nil && watcherMissing(cache) {
						obs.EnvSuspect = true
						obs.EnvConfirmed = !inotifyAvailable()
					}
				}
			}()
			switch st.Op {
			case "warmup":
				// make the Go runtime open what it opens lazily (poller), before the baseline
				d, _ := os.MkdirTemp(script.Root, "warm")
				w, _ := cdi.NewCache(cdi.WithSpecDirs(d), cdi.WithAutoRefresh(false))
				w.Refresh()
				os.RemoveAll(d)
			case "new":
				if script.Default {
					if len(st.Dirs) > 0 {
						cdi.DefaultSpecDirs = st.Dirs
					}
					if st.Mode == "configure-first" || st.Mode == "configure-twice-first" {
						// (the directories come with the options: the package defaults are somewhere else)
						trap := filepath.Join(script.Root, "trap-default")
						os.MkdirAll(trap, 0o755)
						os.WriteFile(filepath.Join(trap, "trap.json"), []byte(c20SpecContent("trap")), 0o644)
						cdi.DefaultSpecDirs = []string{trap}
					}
					switch st.Mode {
					case "configure-first":
						if err := cdi.Configure(options(st)...); err != nil {
							obs.Err = err.Error()
						}
					case "configure-twice-first":
						// the options given one by one, before the default cache is used for the first time
						for _, o := range options(st) {
							if err := cdi.Configure(o); err != nil {
								obs.Err = err.Error()
							}
						}
					default:
						_ = cdi.GetDefaultCache() // default options: auto-refresh on, DefaultSpecDirs
						if st.Auto != nil && !*st.Auto {
							cdi.Configure(cdi.WithAutoRefresh(false))
						}
					}
					cache = cdi.GetDefaultCache()
				} else {
					cache, _ = cdi.NewCache(options(st)...)
				}
			case "configure":
				var err error
				if script.Default {
					err = cdi.Configure(options(st)...)
				} else {
					err = cache.Configure(options(st)...)
				}
				if err != nil {
					obs.Err = err.Error()
				}
			case "refresh":
				if script.Default {
					cdi.Refresh()
				} else {
					cache.Refresh()
				}
			case "write":
				os.MkdirAll(filepath.Dir(st.Path), 0o755)
				tmp := st.Path + ".tmp-w"
				if err := os.WriteFile(tmp, []byte(st.Content), 0o644); err == nil {
					os.Rename(tmp, st.Path)
				}
			case "arm-write":
				cp := st
				armedWrite.Store(&cp)
			case "fire":
				fire()
			case "write-in-place":
				os.MkdirAll(filepath.Dir(st.Path), 0o755)
				os.WriteFile(st.Path, []byte(st.Content), 0o644)
			case "remove":
				os.Remove(st.Path)
			case "mkdir":
				os.MkdirAll(st.Path, 0o755)
			case "rmdir":
				os.RemoveAll(st.Path)
			case "quiesce":
				if !quiesce() {
					obs.Err = "quiesce-timeout"
					obs.Fds, obs.InotifyFds, obs.WatchedIno, obs.Goroutines = c20Resources()
				}
			case "hold":
				ch := make(chan struct{})
				hold.Store(&ch)
			case "wait-held":
				// until the watcher goroutine is actually blocked at an event (bounded)
				select {
				case <-heldNow:
				case <-time.After(2 * time.Second):
					obs.Err = "not-held"
				}
			case "release":
				if hp := hold.Swap(nil); hp != nil {
					close(*hp)
				}
			case "exhaust-begin":
				if err := syscall.Getrlimit(syscall.RLIMIT_NOFILE, &em.limit); err != nil {
					obs.Err = err.Error()
					return
				}
				lim := em.limit
				if st.Mode == "strict" {
					lim.Cur = 0 // nothing can be opened, even after descriptors are released
				} else {
					lim.Cur = 256 // "fill": the table is full, but what the cache releases can be reused
				}
				if err := syscall.Setrlimit(syscall.RLIMIT_NOFILE, &lim); err != nil {
					obs.Err = err.Error()
					return
				}
				for {
					fd, err := syscall.Open("/dev/null", syscall.O_RDONLY, 0)
					if err != nil {
						break
					}
					em.fds = append(em.fds, fd)
				}
				if st.Mode == "partial" && len(em.fds) > 2 {
					// two descriptors are left: enough to scan a directory, not enough for a watcher
					for _, fd := range em.fds[len(em.fds)-2:] {
						syscall.Close(fd)
					}
					em.fds = em.fds[:len(em.fds)-2]
				}
				em.active = true
			case "exhaust-end":
				if em.active {
					syscall.Setrlimit(syscall.RLIMIT_NOFILE, &em.limit)
					for _, fd := range em.fds {
						syscall.Close(fd)
					}
					em.fds, em.active = nil, false
				}
			case "query":
				// queries during a shortage: no panic, no hang - and whatever is answered
				// comes from the directories configured now (see the parent)
				state(cache, &obs)
			case "observe":
				state(cache, &obs)
				obs.Fds, obs.InotifyFds, obs.WatchedIno, obs.Goroutines = c20Resources()
			case "baseline":
				obs.Fds, obs.InotifyFds, obs.WatchedIno, obs.Goroutines = c20Resources()
			case "fresh":
				f, _ := cdi.NewCache(options(st)...)
				if !em.active && (st.Auto == nil || *st.Auto) && watcherMissing(f) {
					obs.EnvSuspect = true
					obs.EnvConfirmed = !inotifyAvailable()
				}
				state(f, &obs)
				f.Configure(cdi.WithAutoRefresh(false))
			}
		})
		if pv != nil {
			obs.Panic = fmt.Sprintf("%v\n%s", pv, stack)
		}
		if st.Op == "observe" || st.Op == "query" || st.Op == "baseline" || st.Op == "fresh" || obs.Err != "" || obs.Panic != "" || obs.EnvSuspect {
			out.Encode(obs)
		}
		if obs.Err == "quiesce-timeout" {
			break // (the parent stops reading here anyway; every further wait would time out as well)
		}
	}
	out.Encode(c20Obs{Step: len(script.Steps), Op: "end"})
	return 0
}

func boolp(b bool) *bool { return &b }

func c20SpecContent(tag string) string {
	return fmt.Sprintf(`{"cdiVersion":"0.6.0","kind":"vendor.com/gpu","devices":[{"name":"%s","containerEdits":{"env":["TAG=%s"]}}]}`, tag, tag)
}

func checkC20(c *Ctx) {
	c.Level = "fault_enumeration"
	c.Rule = "seeded histories of 1-40 Configure calls (directory lists: permutations, subsets, supersets, missing, repeated; auto-refresh on/off/only one option) with directory changes before, between and after, on a private cache and on the package-level default cache (Configure first or GetDefaultCache first, DefaultSpecDirs redirected), the watcher goroutine sometimes held across a Configure; descriptor exhaustion (table full with reusable slots / strict) during step k only or from step k to the end, for every k <= 8; each history in its own child process; oracles: (i) final queries, error keys and directories equal those of a fresh cache with the final options, (ii) auto final mode: inotify watches exactly on the existing final directories and a later change converges; manual: no inotify descriptor and a later change is not reflected until Refresh(), (iii) descriptors, inotify instances and watcher goroutines at the end <= baseline + one watcher regardless of history length, (iv) after a shortage ends the next queries reflect the current contents; distinct_nontrivial = distinct (cache kind, option-change sequence, exhaustion placement)"
	c.Assume("during descriptor exhaustion: no panic, no hang, and nothing answered from a directory that is not configured (what can be read at all is unspecified)", "resource counts are sampled after the goroutines of stopped watchers had a bounded time to exit", "one watcher = 4 descriptors (inotify, epoll, pipe pair) and 2 goroutines (fsnotify reader, cdi watch loop)")
	exe, _ := os.Executable()
	nh := c.pick(90, 3000)
	ne := c.pick(36, 600)
	fixed := map[string]func(root, anchor string, pool []string) (steps []c20Step, dirs []string, auto bool){}
	var runOnce func(cs *Case, exhaustAt int, exhaustToEnd bool, exhaustMode string, evaluateAnyway bool) int
	// run repeats a history whose child process met a shortage of inotify instances
	// that the script did not inject (other processes of this user hold them): the
	// case generator is a pure function of the case name, so the repetition is identical.
	run := func(cs *Case, exhaustAt int, exhaustToEnd bool, exhaustMode string) {
		unconfirmed := 0
		for attempt := 0; attempt < 8; attempt++ {
			// 0: evaluated; 1: void, the machine had no inotify instance (confirmed by a
			// probe in the child); 2: a watcher was missing although the probe succeeded
			switch runOnce(c.newCase(cs.Name), exhaustAt, exhaustToEnd, exhaustMode, unconfirmed >= 2) {
			case 0:
				return
			case 2:
				unconfirmed++
			}
			envShortages.Add(1)
			c.Count("histories_repeated_for_machine_inotify_shortage", 1)
			waitInotify(15 * time.Second)
			time.Sleep(time.Duration(attempt*300) * time.Millisecond)
		}
		c.Inconclusive("no-inotify-instance")
	}
	runOnce = func(cs *Case, exhaustAt int, exhaustToEnd bool, exhaustMode string, evaluateAnyway bool) (void int) {
		envSuspect, envConfirmed := false, false
		r := cs.R
		root := filepath.Join(c.Scratch, sanitize(cs.Name))
		must(os.MkdirAll(root, 0o755))
		defer os.RemoveAll(root)
		anchor := filepath.Join(root, "anchor")
		must(os.MkdirAll(anchor, 0o755))
		pool := []string{filepath.Join(root, "d0"), filepath.Join(root, "d1"), filepath.Join(root, "d2"), filepath.Join(root, "late", "d3")}
		for i, d := range pool {
			if i < 2 || chance(r, 50) {
				must(os.MkdirAll(d, 0o755))
				must(os.WriteFile(filepath.Join(d, "init.json"), []byte(c20SpecContent(fmt.Sprintf("init%d", i))), 0o644))
			}
		}
		// a path that exists in a way but cannot be a directory: below a regular file
		// (watching and scanning it fail with ENOTDIR, not ENOENT)
		must(os.WriteFile(filepath.Join(root, "afile"), []byte("x"), 0o644))
		pool = append(pool, filepath.Join(root, "afile", "sub"))
		pickDirs := func() []string {
			dirs := []string{anchor}
			for _, i := range r.Perm(len(pool))[:r.Intn(len(pool)+1)] {
				dirs = append(dirs, pool[i])
			}
			if chance(r, 15) && len(dirs) > 1 {
				dirs = append(dirs, dirs[1]) // repeated
			}
			// the anchor anywhere in the list
			k := r.Intn(len(dirs))
			dirs[0], dirs[k] = dirs[k], dirs[0]
			return dirs
		}
		useDefault := chance(r, 30)
		var steps []c20Step
		curDirs := pickDirs()
		curAuto := chance(r, 60)
		steps = append(steps, c20Step{Op: "warmup"}, c20Step{Op: "baseline"})
		newStep := c20Step{Op: "new", Dirs: curDirs, Auto: boolp(curAuto)}
		if useDefault {
			newStep.Mode = pickStr(r, "configure-first", "get-first", "configure-twice-first")
			if newStep.Mode == "get-first" {
				// created with the defaults: auto-refresh on unless switched off right away
			}
		}
		steps = append(steps, newStep)
		nconf := 1 + r.Intn(8)
		if chance(r, 25) {
			nconf = 20 + r.Intn(21)
		}
		if exhaustAt >= nconf {
			nconf = exhaustAt + 1 + r.Intn(3)
		}
		var sig []string
		n := 0
		fsop := func() {
			n++
			d := pool[r.Intn(len(pool))]
			switch r.Intn(5) {
			case 0, 1:
				steps = append(steps, c20Step{Op: "write", Path: filepath.Join(d, fmt.Sprintf("f%d.json", r.Intn(3))), Content: c20SpecContent(fmt.Sprintf("t%d", n))})
			case 2:
				steps = append(steps, c20Step{Op: "remove", Path: filepath.Join(d, fmt.Sprintf("f%d.json", r.Intn(3)))})
			case 3:
				steps = append(steps, c20Step{Op: "rmdir", Path: d})
			default:
				steps = append(steps, c20Step{Op: "mkdir", Path: d})
			}
		}
		exhausted := false
		held := false
		if f := fixed[catName(cs.Name)]; f != nil {
			// a hand-written history replaces the generated reconfigurations
			var fs []c20Step
			fs, curDirs, curAuto = f(root, anchor, pool)
			steps = append(steps[:2:2], fs...)
			nconf = 0
			useDefault = strings.Contains(cs.Name, ":default-cache")
			sig = append(sig, "catalogue")
		}
		for k := 0; k < nconf; k++ {
			for i := 0; i < r.Intn(3); i++ {
				fsop()
			}
			if k == exhaustAt {
				steps = append(steps, c20Step{Op: "exhaust-begin", Mode: exhaustMode})
				exhausted = true
			}
			if !exhausted && !held && curAuto && chance(r, 12) {
				// hold the watcher goroutine at an event across the next Configure
				steps = append(steps, c20Step{Op: "hold"}, c20Step{Op: "write-in-place", Path: filepath.Join(curDirs[r.Intn(len(curDirs))], "poke.json"), Content: c20SpecContent("poke")}, c20Step{Op: "wait-held"})
				held = true
				sig = append(sig, "H")
			}
			st := c20Step{Op: "configure"}
			switch r.Intn(4) {
			case 0:
				curDirs = pickDirs()
				st.Dirs = curDirs
				sig = append(sig, "D")
			case 1:
				curAuto = !curAuto
				st.Auto = boolp(curAuto)
				sig = append(sig, "A")
			case 2:
				st.Auto = boolp(curAuto) // same value again
				sig = append(sig, "a")
			default:
				curDirs = pickDirs()
				curAuto = chance(r, 50)
				st.Dirs, st.Auto = curDirs, boolp(curAuto)
				sig = append(sig, "DA")
			}
			if !exhausted && curAuto && chance(r, 20) {
				// a file appears in one of the final directories while Configure is scanning
				n++
				d := curDirs[r.Intn(len(curDirs))]
				if d != anchor {
					steps = append(steps, c20Step{Op: "arm-write", Path: filepath.Join(d, "midscan.json"), Content: c20SpecContent(fmt.Sprintf("mid%d", n))})
					sig = append(sig, "M")
					c.Count("changes_armed_for_configure_scan", 1)
				}
			}
			steps = append(steps, st)
			steps = append(steps, c20Step{Op: "fire"})
			if held && chance(r, 70) {
				for i := 0; i < r.Intn(3); i++ {
					fsop()
				}
				steps = append(steps, c20Step{Op: "release"})
				held = false
			}
			if exhausted {
				steps = append(steps, c20Step{Op: "query"})
				if !exhaustToEnd {
					steps = append(steps, c20Step{Op: "exhaust-end"})
					exhausted = false
				}
			}
		}
		if held {
			steps = append(steps, c20Step{Op: "release"})
		}
		if !curAuto {
			// manual final mode: a cache is as recent as its last (re)configuration, so
			// directory changes generated after the last Configure are dropped
			last := 0
			for i, st := range steps {
				if st.Op == "configure" || st.Op == "new" {
					last = i
				}
			}
			kept := steps[: last+1 : last+1]
			for _, st := range steps[last+1:] {
				switch st.Op {
				case "write", "write-in-place", "remove", "mkdir", "rmdir", "arm-write", "fire":
				default:
					kept = append(kept, st)
				}
			}
			steps = kept
		}
		// (no directory change after the last Configure: the comparison with a fresh
		// cache is made right after it; later changes are exercised further down)
		if exhausted {
			steps = append(steps, c20Step{Op: "exhaust-end"})
		}
		// make sure the anchor exists and drain the watcher
		steps = append(steps, c20Step{Op: "mkdir", Path: anchor})
		if curAuto {
			steps = append(steps, c20Step{Op: "quiesce"})
		} else if exhaustAt >= 0 {
			// manual mode after a shortage: a scan that failed for lack of descriptors
			// can only be repeated by the explicit call
			steps = append(steps, c20Step{Op: "refresh"})
		}
		iObs1 := len(steps)
		steps = append(steps, c20Step{Op: "observe", Note: "first round of queries after the history"})
		if curAuto {
			steps = append(steps, c20Step{Op: "quiesce"})
		}
		iObs := len(steps)
		steps = append(steps, c20Step{Op: "observe", Note: "final"})
		iFresh := len(steps)
		steps = append(steps, c20Step{Op: "fresh", Dirs: curDirs, NoDirs: len(curDirs) == 0, Auto: boolp(curAuto)})
		// a later change in every existing final directory
		var final []string
		seenDir := map[string]bool{}
		for _, d := range curDirs {
			if !seenDir[d] && d != anchor {
				seenDir[d] = true
				final = append(final, d)
			}
		}
		for i, d := range final {
			steps = append(steps, c20Step{Op: "write", Path: filepath.Join(d, "later.json"), Content: c20SpecContent(fmt.Sprintf("later%d", i)), Note: "only-if-exists"})
		}
		if curAuto {
			steps = append(steps, c20Step{Op: "quiesce"})
		}
		iLater1 := len(steps)
		steps = append(steps, c20Step{Op: "observe", Note: "after a later change"})
		if curAuto {
			steps = append(steps, c20Step{Op: "quiesce"})
		}
		iLater := len(steps)
		steps = append(steps, c20Step{Op: "observe", Note: "after a later change, second round"})
		iFresh2 := len(steps)
		steps = append(steps, c20Step{Op: "fresh", Dirs: curDirs, NoDirs: len(curDirs) == 0, Auto: boolp(curAuto)})
		iRefreshed := -1
		if !curAuto {
			steps = append(steps, c20Step{Op: "refresh"})
			iRefreshed = len(steps)
			steps = append(steps, c20Step{Op: "observe", Note: "manual mode, after Refresh()"})
		}
		// (a "later" write into a final directory that does not exist creates it:
		// "directories missing at start, created later" is a legitimate change too)
		// (which query an observation asks first rotates; where the rotation starts differs from case to case)
		script := map[string]any{"root": root, "anchor": anchor, "default": useDefault, "steps": steps, "turn": turnOf(cs.Name)}
		sf := filepath.Join(root, "script.json")
		sb, _ := json.Marshal(script)
		must(os.WriteFile(sf, sb, 0o644))
		cmd := exec.Command(exe, "child-c20", sf)
		outf := filepath.Join(root, "out")
		of, _ := os.Create(outf)
		cmd.Stdout, cmd.Stderr = of, of
		done := make(chan error, 1)
		cmd.Start()
		go func() { done <- cmd.Wait() }()
		var werr error
		select {
		case werr = <-done:
		case <-time.After(120 * time.Second):
			cmd.Process.Signal(syscall.SIGQUIT)
			<-done
			of.Close()
			data, _ := os.ReadFile(outf)
			cs.Violation("hang", map[string]string{"default": fmt.Sprint(useDefault)}, "the history did not finish within 120 s (watchdog): "+clip(string(data[max(0, len(data)-3000):]), 3000), map[string]any{"script": steps})
			return
		}
		of.Close()
		data, _ := os.ReadFile(outf)
		obs := map[int]c20Obs{}
		ended := false
		var troubles []string
		sc := bufio.NewScanner(strings.NewReader(string(data)))
		sc.Buffer(make([]byte, 1<<20), 1<<26)
		for sc.Scan() {
			var o c20Obs
			if json.Unmarshal(sc.Bytes(), &o) != nil {
				continue
			}
			if o.Op == "end" {
				ended = true
				continue
			}
			if o.Panic != "" {
				troubles = append(troubles, fmt.Sprintf("step %d (%s) panics: %s", o.Step, o.Op, clip(o.Panic, 1500)))
			}
			if o.Err == "not-held" {
				c.Count("hold_did_not_take", 1) // e.g. the poked directory does not exist or is not watched
				continue
			}
			if o.Err == "quiesce-timeout" {
				if o.InotifyFds >= 1 && o.Goroutines < 2*o.InotifyFds {
					// nobody is there to take the events: not a matter of waiting longer
					cs.Violation("auto-refresh-inactive", map[string]string{"default": fmt.Sprint(useDefault)}, fmt.Sprintf("step %d: the process holds %d inotify instance(s) but only %d of the %d goroutines that read and handle its events exist; the sentinel event was never handled", o.Step, o.InotifyFds, o.Goroutines, 2*o.InotifyFds), map[string]any{"script": steps, "observation": o})
					return 0
				}
				c.Inconclusive("quiesce-timeout")
				return
			}
			if o.EnvSuspect {
				envSuspect = true
			}
			if o.EnvConfirmed {
				envConfirmed = true
			}
			obs[o.Step] = o
		}
		if envConfirmed {
			return 1
		}
		// whatever a cache answers during a shortage, it answers from the directories
		// it is configured with at that moment: never from a list it was told to drop
		for i, st := range steps {
			o, ok := obs[i]
			if !ok || st.Op != "query" {
				continue
			}
			c.Count("queries_during_a_shortage", 1)
			for q, desc := range o.Devices {
				path := desc
				if k := strings.Index(desc, "@"); k >= 0 {
					path = desc[:k]
				}
				inside := false
				for _, d := range o.Dirs {
					if filepath.Dir(path) == filepath.Clean(d) {
						inside = true
					}
				}
				if !inside {
					cs.Violation("stale-during-shortage", map[string]string{"default": fmt.Sprint(useDefault), "exhaust": exhaustMode}, fmt.Sprintf("during the descriptor shortage (step %d) the cache, configured with %v, answers %s from %s: a directory that is not configured", i, o.Dirs, q, path), map[string]any{"script": steps, "observation": o})
					return
				}
			}
		}
		if envSuspect && !evaluateAnyway {
			// identical repetitions that keep lacking a watcher while the machine has
			// instances to give are evaluated like any other observations
			return 2
		}
		wit := func() map[string]any {
			return map[string]any{"default_cache": useDefault, "script": steps, "final_dirs": curDirs, "final_auto": curAuto, "observations": obs, "exhaustion": fmt.Sprintf("at=%d toEnd=%v mode=%s", exhaustAt, exhaustToEnd, exhaustMode)}
		}
		tags := map[string]string{"default": fmt.Sprint(useDefault), "exhaust": exhaustMode}
		if len(troubles) > 0 {
			cs.Violation("panic", tags, troubles[0], wit())
			return
		}
		if werr != nil || !ended {
			cs.Violation("child-died", tags, fmt.Sprintf("the process died during the history (%v): %s", werr, clip(string(data[max(0, len(data)-2500):]), 2500)), wit())
			return
		}
		c.Count("histories", 1)
		c.Count("configure_calls", nconf)
		if nconf >= 20 {
			c.Count("histories_20+_configures", 1)
		}
		if useDefault {
			c.Count("default_cache_histories", 1)
		}
		ex := "none"
		if exhaustAt >= 0 {
			ex = fmt.Sprintf("%s@%d/%v", exhaustMode, exhaustAt, exhaustToEnd)
			c.Count("exhaustion_placements", 1)
			c.Count(fmt.Sprintf("exhaustion_at_step:%d", exhaustAt), 1)
		}
		c.Distinct(fmt.Sprintf("%v|%s|%s", useDefault, strings.Join(sig, ""), ex))
		base, o1, fin, fresh := obs[1], obs[iObs1], obs[iObs], obs[iFresh]
		_ = o1
		fileKeys := func(keys, dirs []string) []string {
			isDir := map[string]bool{}
			for _, d := range dirs {
				isDir[filepath.Clean(d)] = true
			}
			var out []string
			for _, k := range keys {
				if !isDir[k] {
					out = append(out, k)
				}
			}
			return out
		}
		same := func(a, b c20Obs) []string {
			var bad []string
			if exhaustAt >= 0 {
				// a cache that could not create its watcher during the shortage keeps
				// saying so in its directory errors (and rescans on every query):
				// only the Spec-file entries are compared then
				a.ErrKeys, b.ErrKeys = fileKeys(a.ErrKeys, a.Dirs), fileKeys(b.ErrKeys, b.Dirs)
				a.DirErrKeys, b.DirErrKeys = nil, nil
			}
			if jsonStr(a.Devices) != jsonStr(b.Devices) {
				bad = append(bad, fmt.Sprintf("devices %s vs fresh %s", jsonStr(a.Devices), jsonStr(b.Devices)))
			}
			if jsonStr(a.Listings) != jsonStr(b.Listings) {
				bad = append(bad, fmt.Sprintf("listings %s (first query of that observation: %s) vs fresh %s", jsonStr(a.Listings), a.FirstQuery, jsonStr(b.Listings)))
			}
			if jsonStr(a.ErrKeys) != jsonStr(b.ErrKeys) {
				bad = append(bad, fmt.Sprintf("error keys %v vs fresh %v", a.ErrKeys, b.ErrKeys))
			}
			if jsonStr(a.DirErrKeys) != jsonStr(b.DirErrKeys) {
				bad = append(bad, fmt.Sprintf("directory error keys %v vs fresh %v", a.DirErrKeys, b.DirErrKeys))
			}
			if jsonStr(a.Dirs) != jsonStr(b.Dirs) {
				bad = append(bad, fmt.Sprintf("directories %v vs fresh %v", a.Dirs, b.Dirs))
			}
			return bad
		}
		// (i)/(iv) equals a fresh cache with the final options
		if bad := same(fin, fresh); len(bad) > 0 {
			cls := "differs-from-fresh"
			if exhaustAt >= 0 {
				cls = "stale-after-shortage"
			}
			cs.Violation(cls, tags, fmt.Sprintf("after %d reconfigurations (%s, exhaustion %s) the cache differs from a fresh cache with the final options: %s", nconf, strings.Join(sig, ""), ex, bad[0]), map[string]any{"discrepancies": bad, "w": wit()})
			return
		}
		// (iii) bounded resources
		allowFd, allowG, wantIn := 0, 0, 0
		if curAuto {
			allowFd, allowG, wantIn = 4, 2, 1
		}
		if curAuto && fin.InotifyFds == 1 && fin.Goroutines < 2 {
			cs.Violation("auto-refresh-inactive", tags, fmt.Sprintf("auto-refresh is enabled and the cache holds an inotify instance, but only %d of the 2 goroutines that read and handle its events exist", fin.Goroutines), wit())
			return
		}
		if fin.Fds > base.Fds+allowFd || fin.InotifyFds > wantIn || fin.Goroutines > allowG {
			cs.Violation("resource-growth", tags, fmt.Sprintf("after %d reconfigurations: %d descriptors (baseline %d), %d inotify instances, %d watcher goroutines; allowed: baseline+%d, %d, %d", nconf, fin.Fds, base.Fds, fin.InotifyFds, fin.Goroutines, allowFd, wantIn, allowG), wit())
			return
		}
		// (ii) watches exactly on the existing final directories / none
		if curAuto && fin.InotifyFds == 1 {
			want := map[uint64]bool{}
			for _, d := range curDirs {
				var st syscall.Stat_t
				if syscall.Stat(d, &st) == nil {
					want[st.Ino] = true
				}
			}
			got := map[uint64]bool{}
			for _, ino := range obs[iLater].WatchedIno {
				got[ino] = true
			}
			var missing, extra []uint64
			for ino := range want {
				if !got[ino] {
					missing = append(missing, ino)
				}
			}
			for ino := range got {
				if !want[ino] {
					extra = append(extra, ino)
				}
			}
			if len(missing) > 0 || len(extra) > 0 {
				cs.Violation("watches", tags, fmt.Sprintf("inotify watches are not exactly on the existing final directories: missing inodes %v, extra inodes %v", missing, extra), wit())
				return
			}
			c.Count("watch_sets_checked", 1)
		}
		later, fresh2 := obs[iLater], obs[iFresh2]
		if curAuto {
			if fin.InotifyFds == 0 {
				c.Count("auto_without_watcher", 1) // no inotify instance was available: every query rescans
			}
			if fin.InotifyFds == 0 {
				// (nothing asynchronous without a watcher: every query looks at the directories
				// itself, so the very first round of queries after the change is right already)
				if bad := same(obs[iLater1], fresh2); len(bad) > 0 {
					cs.Violation("auto-refresh-inactive", tags, fmt.Sprintf("auto-refresh is enabled, the cache has no watcher, and the first queries after a later change in the final directories do not reflect it: %s", bad[0]), map[string]any{"discrepancies": bad, "w": wit()})
					return
				}
				c.Count("first_round_after_a_change_checked_on_watcherless_caches", 1)
			}
			if bad := same(later, fresh2); len(bad) > 0 {
				cs.Violation("auto-refresh-inactive", tags, fmt.Sprintf("auto-refresh is enabled but a later change in the final directories is not reflected: %s", bad[0]), map[string]any{"discrepancies": bad, "w": wit()})
				return
			}
		} else {
			if jsonStr(later.Devices) != jsonStr(fin.Devices) {
				cs.Violation("manual-mode-refreshes", tags, "auto-refresh is disabled but a later change is reflected without Refresh()", wit())
				return
			}
			if bad := same(obs[iRefreshed], fresh2); len(bad) > 0 {
				cs.Violation("differs-from-fresh", tags, "manual mode: after Refresh() the cache differs from a fresh one: "+bad[0], wit())
				return
			}
		}
		c.Sample(3, map[string]any{"default_cache": useDefault, "option_changes": strings.Join(sig, ""), "configure_calls": nconf, "exhaustion": ex, "final_auto": curAuto, "final_fds_minus_baseline": fin.Fds - base.Fds, "final_watcher_goroutines": fin.Goroutines})
		return 0
	}
	// catalogue: the old watcher goroutine, held at an event across a Configure,
	// continues afterwards with the directory-error map of the old configuration
	fixed["cat:held-watcher-across-configure"] = func(root, anchor string, pool []string) ([]c20Step, []string, bool) {
		late := pool[3]
		os.RemoveAll(filepath.Dir(late))
		dirs := []string{anchor, late}
		return []c20Step{
			{Op: "new", Dirs: []string{anchor, pool[0]}, Auto: boolp(true)},
			{Op: "hold"},
			{Op: "write-in-place", Path: filepath.Join(pool[0], "poke.json"), Content: c20SpecContent("poke")},
			{Op: "wait-held"},
			{Op: "configure", Dirs: dirs},
			{Op: "write", Path: filepath.Join(late, "appeared.json"), Content: c20SpecContent("appeared")},
			{Op: "release"},
		}, dirs, true
	}
	// catalogue: every directory of the list is missing when the cache is set up; they
	// appear later, a first query finds them, and from then on changes are followed
	for _, how := range []string{"new", "configure"} {
		how := how
		fixed["cat:all-directories-missing-at-setup:"+how] = func(root, anchor string, pool []string) ([]c20Step, []string, bool) {
			late := filepath.Join(root, "not-yet", "late")
			dirs := []string{anchor, late}
			steps := []c20Step{{Op: "rmdir", Path: anchor}}
			if how == "new" {
				steps = append(steps, c20Step{Op: "new", Dirs: dirs, Auto: boolp(true)})
			} else {
				steps = append(steps, c20Step{Op: "new", Dirs: []string{pool[0]}, Auto: boolp(true)}, c20Step{Op: "configure", Dirs: dirs})
			}
			return append(steps,
				c20Step{Op: "mkdir", Path: anchor},
				c20Step{Op: "mkdir", Path: late},
				c20Step{Op: "write", Path: filepath.Join(late, "first.json"), Content: c20SpecContent("first")},
				c20Step{Op: "query"}), dirs, true
		}
	}
	// catalogue: the package-level default cache gets its options one call at a time before
	// it is used for the first time (the package defaults point somewhere else)
	for _, auto := range []bool{false, true} {
		auto := auto
		fixed[fmt.Sprintf("cat:options-one-by-one:default-cache:auto=%v", auto)] = func(root, anchor string, pool []string) ([]c20Step, []string, bool) {
			dirs := []string{anchor, pool[0]}
			return []c20Step{
				{Op: "write", Path: filepath.Join(pool[0], "good.json"), Content: c20SpecContent("good")},
				{Op: "new", Dirs: dirs, Auto: boolp(auto), Mode: "configure-twice-first"},
			}, dirs, auto
		}
	}
	// catalogue: a cache that has loaded Specs (one valid, one in error) is told to use no
	// directories at all, and to refresh manually
	fixed["cat:reconfigured-to-no-directories"] = func(root, anchor string, pool []string) ([]c20Step, []string, bool) {
		return []c20Step{
			{Op: "new", Dirs: []string{anchor, pool[0]}, Auto: boolp(true)},
			{Op: "write", Path: filepath.Join(pool[0], "good.json"), Content: c20SpecContent("good")},
			{Op: "write", Path: filepath.Join(pool[0], "bad.json"), Content: "{"},
			{Op: "quiesce"},
			{Op: "query"},
			{Op: "configure", NoDirs: true, Auto: boolp(false)},
		}, []string{}, false
	}
	// catalogue: a cache set up during a shortage on directories that hold nothing
	// (empty, missing): there is nothing to load, yet it has to keep looking, as a
	// Spec written later must show up
	for _, how := range []string{"new", "manual-then-auto"} {
		how := how
		fixed["cat:shortage-on-empty-directories:"+how] = func(root, anchor string, pool []string) ([]c20Step, []string, bool) {
			emptyA, emptyB := filepath.Join(root, "empty-a"), filepath.Join(root, "not-there", "empty-b")
			os.MkdirAll(emptyA, 0o755)
			dirs := []string{anchor, emptyA, emptyB}
			if how == "new" {
				return []c20Step{{Op: "exhaust-begin", Mode: "fill"}, {Op: "new", Dirs: dirs, Auto: boolp(true)}, {Op: "query"}, {Op: "exhaust-end"}, {Op: "query"}}, dirs, true
			}
			return []c20Step{{Op: "new", Dirs: dirs, Auto: boolp(false)}, {Op: "exhaust-begin", Mode: "fill"}, {Op: "configure", Auto: boolp(true)}, {Op: "query"}, {Op: "exhaust-end"}, {Op: "query"}}, dirs, true
		}
	}
	c.RunNamed([]string{"cat:held-watcher-across-configure", "cat:all-directories-missing-at-setup:new", "cat:all-directories-missing-at-setup:configure", "cat:reconfigured-to-no-directories", "cat:options-one-by-one:default-cache:auto=false", "cat:options-one-by-one:default-cache:auto=true"}, 4, func(cs *Case) { run(cs, -1, false, "") })
	// catalogue: a partial shortage at set-up (a scan still gets its descriptor, a watcher
	// does not get its four): once it is over, every query answers from the directories
	for _, how := range []string{"new", "manual-then-auto"} {
		how := how
		for t := 0; t < 2; t++ {
			fixed[fmt.Sprintf("cat:partial-shortage:%s", how)] = func(root, anchor string, pool []string) ([]c20Step, []string, bool) {
				dirs := []string{anchor, pool[0]}
				pre := []c20Step{{Op: "mkdir", Path: pool[0]}, {Op: "write", Path: filepath.Join(pool[0], "first.json"), Content: c20SpecContent("first")}}
				// (a change right after the shortage, before anything is asked of the cache)
				after := c20Step{Op: "write", Path: filepath.Join(pool[0], "second.json"), Content: c20SpecContent("second")}
				if how == "new" {
					return append(pre, c20Step{Op: "exhaust-begin", Mode: "partial"}, c20Step{Op: "new", Dirs: dirs, Auto: boolp(true)}, c20Step{Op: "query"}, c20Step{Op: "exhaust-end"}, after), dirs, true
				}
				return append(pre, c20Step{Op: "new", Dirs: dirs, Auto: boolp(false)}, c20Step{Op: "exhaust-begin", Mode: "partial"}, c20Step{Op: "configure", Auto: boolp(true)}, c20Step{Op: "query"}, c20Step{Op: "exhaust-end"}, after), dirs, true
			}
		}
	}
	var partialCases []string
	for t := 0; t < 4; t++ {
		partialCases = append(partialCases, fmt.Sprintf("cat:partial-shortage:new:t%d", t), fmt.Sprintf("cat:partial-shortage:manual-then-auto:t%d", t))
	}
	c.RunNamed(partialCases, 4, func(cs *Case) { run(cs, 0, false, "partial") })
	var shortageCases []string
	for t := 0; t < 4; t++ {
		// (":tN": the first observation starts with the N-th kind of query)
		shortageCases = append(shortageCases, fmt.Sprintf("cat:shortage-on-empty-directories:new:t%d", t), fmt.Sprintf("cat:shortage-on-empty-directories:manual-then-auto:t%d", t))
	}
	c.RunNamed(shortageCases, 4, func(cs *Case) { run(cs, 0, false, "fill") })
	c.RunCases("hist", nh, 8, func(cs *Case) { run(cs, -1, false, "") })
	c.RunCases("exhaust", ne, 8, func(cs *Case) {
		var i int
		fmt.Sscanf(cs.Name, "exhaust:%d", &i)
		run(cs, i%9, (i/9)%2 == 1, []string{"strict", "fill"}[(i/18)%2])
	})
	c.Floor("histories", 50)
	c.Floor("histories_20+_configures", 5)
	c.Floor("default_cache_histories", 10)
	c.Floor("watch_sets_checked", 10)
	for k := 0; k <= 8; k++ {
		c.Floor(fmt.Sprintf("exhaustion_at_step:%d", k), 1)
	}
}

// catName strips the ":tN" suffix of a catalogue case name; turnOf is the N (or a
// value derived from the name) at which the rotation of first queries starts.
func catName(name string) string {
	if i := strings.LastIndex(name, ":t"); i > 0 && len(name)-i == 3 {
		return name[:i]
	}
	return name
}

func turnOf(name string) int {
	if catName(name) != name {
		return int(name[len(name)-1] - '0')
	}
	return int(nameHash(name) % 4)
}
