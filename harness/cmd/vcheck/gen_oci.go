package main

// G-OCI: initial OCI runtime specs, and harness-created host device nodes.

import (
	"fmt"
	"math/rand"
	"os"
	"path/filepath"
	"reflect"
	"strings"

	oci "github.com/opencontainers/runtime-spec/specs-go"
	"golang.org/x/sys/unix"
)

type HostNode struct {
	Path         string
	Type         string // b c p, "" = not a device (regular file), "missing"
	Major, Minor int64
}

// makeHostNodes creates device nodes of every type in dir.
func makeHostNodes(dir string) ([]HostNode, error) {
	if err := os.MkdirAll(dir, 0o755); err != nil {
		return nil, err
	}
	nodes := []HostNode{
		{filepath.Join(dir, "null"), "c", 1, 3},
		{filepath.Join(dir, "zero"), "c", 1, 5},
		{filepath.Join(dir, "loop0"), "b", 7, 0},
		{filepath.Join(dir, "loop9"), "b", 7, 9},
		{filepath.Join(dir, "fifo"), "p", 0, 0},
	}
	for _, n := range nodes {
		var mode uint32
		switch n.Type {
		case "c":
			mode = unix.S_IFCHR | 0o600
		case "b":
			mode = unix.S_IFBLK | 0o600
		case "p":
			mode = unix.S_IFIFO | 0o600
		}
		if err := unix.Mknod(n.Path, mode, int(unix.Mkdev(uint32(n.Major), uint32(n.Minor)))); err != nil {
			return nil, fmt.Errorf("mknod %s: %w", n.Path, err)
		}
	}
	reg := filepath.Join(dir, "regular")
	if err := os.WriteFile(reg, []byte("x"), 0o644); err != nil {
		return nil, err
	}
	nodes = append(nodes, HostNode{reg, "", 0, 0}, HostNode{filepath.Join(dir, "does-not-exist"), "missing", 0, 0})
	// more things that are not device nodes: a symbolic link to one (the node itself
	// is looked at, links are not followed), a directory, a dangling link
	link, adir, dangling := filepath.Join(dir, "link-to-null"), filepath.Join(dir, "adir"), filepath.Join(dir, "dangling")
	if err := os.Symlink(nodes[0].Path, link); err != nil {
		return nil, err
	}
	if err := os.Mkdir(adir, 0o755); err != nil {
		return nil, err
	}
	if err := os.Symlink(filepath.Join(dir, "nowhere"), dangling); err != nil {
		return nil, err
	}
	nodes = append(nodes, HostNode{link, "", 0, 0}, HostNode{adir, "", 0, 0}, HostNode{dangling, "", 0, 0})
	return nodes, nil
}

func cloneOCI(s *oci.Spec) *oci.Spec {
	if s == nil {
		return nil
	}
	// (a deep copy of the Go value, not a JSON round trip: strings keep their bytes,
	// empty lists stay empty lists)
	return deepCopy(reflect.ValueOf(s)).Interface().(*oci.Spec)
}

func deepCopy(v reflect.Value) reflect.Value {
	switch v.Kind() {
	case reflect.Ptr:
		if v.IsNil() {
			return v
		}
		out := reflect.New(v.Type().Elem())
		out.Elem().Set(deepCopy(v.Elem()))
		return out
	case reflect.Interface:
		if v.IsNil() {
			return v
		}
		out := reflect.New(v.Type()).Elem()
		out.Set(deepCopy(v.Elem()))
		return out
	case reflect.Struct:
		out := reflect.New(v.Type()).Elem()
		out.Set(v)
		for i := 0; i < v.NumField(); i++ {
			if out.Field(i).CanSet() {
				out.Field(i).Set(deepCopy(v.Field(i)))
			}
		}
		return out
	case reflect.Slice:
		if v.IsNil() {
			return v
		}
		out := reflect.MakeSlice(v.Type(), v.Len(), v.Len())
		for i := 0; i < v.Len(); i++ {
			out.Index(i).Set(deepCopy(v.Index(i)))
		}
		return out
	case reflect.Map:
		if v.IsNil() {
			return v
		}
		out := reflect.MakeMapWithSize(v.Type(), v.Len())
		for _, k := range v.MapKeys() {
			out.SetMapIndex(deepCopy(k), deepCopy(v.MapIndex(k)))
		}
		return out
	}
	return v
}

var ociEnvNames = []string{"PATH", "HOME", "TERM", "LANG", "FOO"}
var ociMountDests = []string{"/proc", "/dev", "/dev/pts", "/sys", "/sys/fs/cgroup", "/data", "/data/a", "/data/a/b", "/etc/hosts", "/var/lib/x/y/z", "/opt//dup/", "/run/./x"}
var ociDevPaths = []string{"/dev/existing0", "/dev/existing1", "/dev/existing2", "/dev/nvidia0"}

func ociHook(tag string, i int) oci.Hook {
	return oci.Hook{Path: fmt.Sprintf("/old/%s/%d", tag, i), Args: []string{"old", tag}}
}

// genOCI generates an initial OCI spec; sections are nil or populated.
func genOCI(r *rand.Rand) *oci.Spec {
	s := &oci.Spec{Version: "1.0.2"}
	if chance(r, 50) {
		s.Hostname = "host"
		s.Root = &oci.Root{Path: "rootfs", Readonly: chance(r, 50)}
		s.Annotations = map[string]string{"keep": "me"}
	}
	if chance(r, 75) {
		p := &oci.Process{Cwd: "/", Args: []string{"sh"}}
		for _, i := range r.Perm(len(ociEnvNames))[:r.Intn(len(ociEnvNames)+1)] {
			p.Env = append(p.Env, fmt.Sprintf("%s=old%d", ociEnvNames[i], i))
		}
		if chance(r, 12) {
			// strings are bytes: what the runtime put there is not the library's to normalise
			p.Args = append(p.Args, "--name=caf\xe9", "\xff\xfe")
			s.Hostname = "host\x80"
			if s.Annotations == nil {
				s.Annotations = map[string]string{}
			}
			s.Annotations["bytes"] = "a\xc3(b"
		}
		p.User.UID = uint32([]int{0, 0, 1000, 65534}[r.Intn(4)])
		p.User.GID = uint32([]int{0, 0, 1000, 100, 5, 44}[r.Intn(6)])
		for i := 0; i < r.Intn(4); i++ {
			p.User.AdditionalGids = append(p.User.AdditionalGids, uint32([]int{0, 5, 10, 44, 5}[r.Intn(5)]))
		}
		s.Process = p
	}
	if chance(r, 70) {
		l := &oci.Linux{}
		if chance(r, 50) {
			l.Namespaces = []oci.LinuxNamespace{{Type: "pid"}, {Type: "mount"}}
			l.CgroupsPath = "/cg"
		}
		for _, i := range r.Perm(len(ociDevPaths))[:r.Intn(len(ociDevPaths)+1)] {
			uid := uint32(7)
			d := oci.LinuxDevice{Path: ociDevPaths[i], Type: "c", Major: 10, Minor: int64(i)}
			if chance(r, 30) {
				d.UID = &uid
			}
			l.Devices = append(l.Devices, d)
		}
		if chance(r, 60) {
			l.Resources = &oci.LinuxResources{}
			mj, mn := int64(10), int64(200)
			l.Resources.Devices = append(l.Resources.Devices, oci.LinuxDeviceCgroup{Allow: false, Access: "rwm"})
			if chance(r, 50) {
				l.Resources.Devices = append(l.Resources.Devices, oci.LinuxDeviceCgroup{Allow: true, Type: "c", Major: &mj, Minor: &mn, Access: "rw"})
			}
			if chance(r, 30) {
				// the very rules the edits are going to add (host nodes null, zero, loop0, loop9 with the default access)
				for _, x := range [][3]int64{{'c', 1, 3}, {'c', 1, 5}, {'b', 7, 0}, {'b', 7, 9}} {
					mj, mn := x[1], x[2]
					l.Resources.Devices = append(l.Resources.Devices, oci.LinuxDeviceCgroup{Allow: true, Type: string(rune(x[0])), Major: &mj, Minor: &mn, Access: pickStr(r, "rwm", "rwm", "r", "rw")})
				}
			}
			// rules a runtime typically has in place: wildcards (absent major and/or
			// minor), and rules for the very numbers the edits may add later
			for k := r.Intn(4); k > 0; k-- {
				rule := oci.LinuxDeviceCgroup{Allow: chance(r, 80), Type: pickStr(r, "c", "b", "a", ""), Access: pickStr(r, "rwm", "rw", "m", "r", "")}
				if chance(r, 70) {
					v := []int64{1, 7, 10, 195, int64(1 + r.Intn(200))}[r.Intn(5)]
					rule.Major = &v
				}
				if chance(r, 40) {
					v := []int64{0, 3, 5, 9, int64(r.Intn(200))}[r.Intn(5)]
					rule.Minor = &v
				}
				l.Resources.Devices = append(l.Resources.Devices, rule)
			}
		}
		if chance(r, 30) {
			l.IntelRdt = &oci.LinuxIntelRdt{ClosID: "oldclos", L3CacheSchema: "L3:0=1", EnableCMT: true}
		}
		s.Linux = l
	}
	nm := r.Intn(7)
	if chance(r, 15) {
		nm = 9 + r.Intn(4)
	}
	if nm > len(ociMountDests) {
		nm = len(ociMountDests)
	}
	for _, i := range r.Perm(len(ociMountDests))[:nm] {
		s.Mounts = append(s.Mounts, oci.Mount{Destination: ociMountDests[i], Source: fmt.Sprintf("/src/%d", i), Type: "bind", Options: []string{"rbind"}})
	}
	if chance(r, 50) {
		h := &oci.Hooks{}
		if chance(r, 50) {
			h.Prestart = []oci.Hook{ociHook("prestart", 0)}
		}
		if chance(r, 50) {
			h.CreateRuntime = []oci.Hook{ociHook("createRuntime", 0), ociHook("createRuntime", 1)}
		}
		if chance(r, 30) {
			h.CreateContainer = []oci.Hook{ociHook("createContainer", 0)}
		}
		if chance(r, 30) {
			h.StartContainer = []oci.Hook{ociHook("startContainer", 0)}
		}
		if chance(r, 30) {
			h.Poststart = []oci.Hook{ociHook("poststart", 0)}
		}
		if chance(r, 30) {
			h.Poststop = []oci.Hook{ociHook("poststop", 0)}
		}
		s.Hooks = h
	}
	return s
}

// hostileOCI is an OCI spec as a careless or hostile caller may hand it over:
// what genOCI makes, with members that are empty, relative, repeated or odd.
// (An OCI spec is caller data: no shape of it may make the library panic.)
func hostileOCI(r *rand.Rand) *oci.Spec {
	s := genOCI(r)
	for k := 1 + r.Intn(4); k > 0; k-- {
		switch r.Intn(9) {
		case 0:
			dest := pickStr(r, "", ".", "..", "rel/x", "//", "/a/../..", "/", " ", "a", "/x\x00y", strings.Repeat("/d", 3000))
			m := oci.Mount{Destination: dest, Source: "/src/h", Type: pickStr(r, "bind", "", "tmpfs")}
			if len(s.Mounts) > 0 && chance(r, 50) {
				i := r.Intn(len(s.Mounts) + 1)
				s.Mounts = append(s.Mounts[:i], append([]oci.Mount{m}, s.Mounts[i:]...)...)
			} else {
				s.Mounts = append(s.Mounts, m)
			}
		case 1:
			if s.Process == nil {
				s.Process = &oci.Process{}
			}
			s.Process.Env = append(s.Process.Env, pickStr(r, "", "=", "NOEQ", "=v", "A==", "A", "\x00=1"), pickStr(r, "", "A=1", "A=1"))
		case 2:
			if s.Linux == nil {
				s.Linux = &oci.Linux{}
			}
			s.Linux.Devices = append(s.Linux.Devices, oci.LinuxDevice{Path: pickStr(r, "", ".", "rel", "/dev/null", "/dev/null")}, oci.LinuxDevice{Path: pickStr(r, "", "/dev/null")})
		case 3:
			if s.Hooks == nil {
				s.Hooks = &oci.Hooks{}
			}
			s.Hooks.Prestart = append(s.Hooks.Prestart, oci.Hook{})
			s.Hooks.Poststop = append(s.Hooks.Poststop, oci.Hook{Path: "", Args: []string{}})
		case 4:
			if s.Linux == nil {
				s.Linux = &oci.Linux{}
			}
			s.Linux.Resources = &oci.LinuxResources{Devices: []oci.LinuxDeviceCgroup{{}, {Type: "x", Access: "zzz"}}}
		case 5:
			s.Process = &oci.Process{} // nothing in it, not even a working directory
		case 6:
			s.Linux = &oci.Linux{IntelRdt: &oci.LinuxIntelRdt{}}
		case 7:
			s.Version, s.Root, s.Annotations = "", &oci.Root{}, map[string]string{"": ""}
		default:
			if s.Process != nil {
				s.Process.User.AdditionalGids = append(s.Process.User.AdditionalGids, 0, 0, 4294967295, 0)
			}
		}
	}
	return s
}

// scribbleOCI overwrites, in place, everything an OCI spec reaches through a
// slice, a pointer or a map: strings become "SCRIBBLED", numbers 4242. The OCI
// spec is the caller's to do with as it pleases; whatever it shares storage
// with (a cached Spec, say) shows the scribbling too.
func scribbleOCI(o *oci.Spec) {
	var walk func(v reflect.Value, settable bool)
	walk = func(v reflect.Value, settable bool) {
		switch v.Kind() {
		case reflect.Ptr:
			if !v.IsNil() {
				walk(v.Elem(), true)
			}
		case reflect.Interface:
			if !v.IsNil() {
				walk(v.Elem(), false)
			}
		case reflect.Struct:
			for i := 0; i < v.NumField(); i++ {
				if v.Type().Field(i).IsExported() {
					walk(v.Field(i), settable)
				}
			}
		case reflect.Slice:
			for i := 0; i < v.Len(); i++ {
				walk(v.Index(i), true)
			}
		case reflect.Map:
			if v.Type().Elem().Kind() == reflect.String {
				for _, k := range v.MapKeys() {
					v.SetMapIndex(k, reflect.ValueOf("SCRIBBLED").Convert(v.Type().Elem()))
				}
			}
		case reflect.String:
			if settable && v.CanSet() {
				v.SetString("SCRIBBLED")
			}
		case reflect.Int, reflect.Int32, reflect.Int64:
			if settable && v.CanSet() {
				v.SetInt(4242)
			}
		case reflect.Uint32, reflect.Uint64, reflect.Uint16, reflect.Uint8:
			if settable && v.CanSet() {
				v.SetUint(42)
			}
		case reflect.Bool:
			if settable && v.CanSet() {
				v.SetBool(!v.Bool())
			}
		}
	}
	if o != nil {
		// (only what hangs off slices, pointers and maps: a struct value reached from the
		// top-level object directly is the caller's own copy anyway)
		walk(reflect.ValueOf(o).Elem(), false)
	}
}
