package main

// C08 — no untrusted input can crash the library. Sanitizer-style monitor:
// hostile inputs are fed to every listed entry point; a panic, a fatal error
// of a child process, or a call burning more than 20 s of CPU is a violation.
// Mode 1: in-process with recover() (same-goroutine entry points).
// Mode 2: a child process holding an auto-refresh cache; hostile files are
// dropped into its watched directory and its watcher goroutine must survive.

import (
	"bufio"
	"bytes"
	"encoding/json"
	"fmt"
	"math/rand"
	"os"
	"os/exec"
	"path/filepath"
	"runtime"
	"strings"
	"sync/atomic"
	"time"

	"golang.org/x/sys/unix"
	"tags.cncf.io/container-device-interface/pkg/cdi"
	"tags.cncf.io/container-device-interface/pkg/parser"
	"tags.cncf.io/container-device-interface/schema"
	specs "tags.cncf.io/container-device-interface/specs-go"
)

func init() {
	register("C08", checkC08)
	registerChild("c08watch", childC08Watch)
}

var c08Hostile = []any{nil, true, 0, -1, RawNum("1e400"), RawNum("-0"), RawNum("99999999999999999999999"), RawNum("1.5"), "", "a", "a/b", "a/b=c", "=", "/", "\x00", "\xff\xfe", strings.Repeat("A", 3000), []any{}, []any{nil}, []any{[]any{[]any{}}}, &OMap{}, om("", ""), om("a", nil)}

func deepList(n int) any {
	var v any = "x"
	for i := 0; i < n; i++ {
		v = []any{v}
	}
	return v
}

var c08YAML = []string{
	"a: &a [*a]\n",
	"&a [*a, *a]\n",
	"cdiVersion: &v \"0.6.0\"\nkind: *v\ndevices: *v\n",
	"x: &x {cdiVersion: \"0.6.0\", kind: \"v.com/c\"}\n<<: *x\ndevices:\n- name: d\n  containerEdits:\n    env: [\"A=b\"]\n",
	"cdiVersion: \"0.6.0\"\nkind: v.com/c\ndevices:\n- &d {name: d0, containerEdits: {env: [\"A=b\"]}}\n- <<: *d\n  name: d1\n- *d\n",
	"a: &a [\"lol\",\"lol\",\"lol\",\"lol\",\"lol\",\"lol\",\"lol\",\"lol\",\"lol\"]\nb: &b [*a,*a,*a,*a,*a,*a,*a,*a,*a]\nc: &c [*b,*b,*b,*b,*b,*b,*b,*b,*b]\nd: &d [*c,*c,*c,*c,*c,*c,*c,*c,*c]\ne: &e [*d,*d,*d,*d,*d,*d,*d,*d,*d]\nf: &f [*e,*e,*e,*e,*e,*e,*e,*e,*e]\ng: &g [*f,*f,*f,*f,*f,*f,*f,*f,*f]\nh: &h [*g,*g,*g,*g,*g,*g,*g,*g,*g]\ndevices: *h\n",
	"cdiVersion: !!binary aGVsbG8=\nkind: !!set {a, b}\ndevices: !!python/object:os.system x\n",
	"--- \ncdiVersion: \"0.6.0\"\n--- \nkind: v.com/c\n...\n",
	"\ufeffcdiVersion: \"0.6.0\"\nkind: v.com/c\ndevices: []\n",
	"cdiVersion: \"0.6.0\"\nkind: v.com/c\ndevices:\n\t- name: d\n",
	"%YAML 1.2\n---\ncdiVersion: \"0.6.0\"\n",
	"? [a, b]\n: c\n? {x: y}\n: z\n",
	"1: x\ntrue: y\nnull: z\n1.5: w\n",
	"cdiVersion: \"0.6.0\"\nkind: v.com/c\ndevices:\n- name: d\n  containerEdits:\n    deviceNodes:\n    - {path: /dev/x, major: 0x7fffffffffffffff, minor: 0o17, fileMode: -1, uid: 1e3}\n",
	"cdiVersion: 0.6.0\nkind: v.com/c\nannotations: {1: 2, ~: ~}\ndevices:\n- name: 1\n  containerEdits: {env: [A=b], additionalGids: [\"5\", 5.0, -0]}\n",
	"{\"cdiVersion\":\"0.6.0\",\"kind\":\"v.com/c\",\"devices\":[{\"name\":\"d\",\"containerEdits\":{\"hooks\":[{\"hookName\":\"prestart\",\"path\":\"/x\",\"timeout\":-9223372036854775808}],\"intelRdt\":null,\"mounts\":null,\"env\":null}}],\"containerEdits\":null,\"annotations\":null}",
	"null\n", "~\n", "---\n", "# only a comment\n", "[]\n", "\"string\"\n", "- a\n- b\n", "{}", "{", "}", "[", "\"", "'", "|", ">", "&", "*", "!", "%", "@", "`", ":", "-", "?", ",", "\x00", "\t", " ", "\n", "\r\n",
	"cdiVersion: \"0.6.0\"\nkind: a/b\ndevices:\n- name: c\n  containerEdits:\n    env: [A=b]\n",
	"cdiVersion: \"0.6.0\"\nkind: v.com/c\ndevices:\n- name: d\n  annotations: {\"v.com/c=d\": \"v.com/c=d\"}\n  containerEdits:\n    deviceNodes: [null]\n    hooks: [null]\n    mounts: [null]\n",
}

// c08Input generates one hostile file content and says how it was made.
func c08Input(r *rand.Rand) ([]byte, string) {
	valid := func() (*specs.Spec, *OMap) {
		var s *specs.Spec
		if chance(r, 30) {
			s = c05Base(r)
		} else {
			s = genSpec(r, SpecGen{Marker: "m"})
		}
		return s, specDoc(s)
	}
	emit := func(d any) []byte {
		if chance(r, 50) {
			return []byte(emitJSON(d))
		}
		return []byte(emitYAML(d))
	}
	switch k := r.Intn(100); {
	case k < 35: // type-preserving hostile leaves: decoding succeeds, validation and later stages see them
		_, d := valid()
		var slots []docSlot
		collectSlots(d, "", &slots)
		n := 1 + r.Intn(4)
		var what []string
		for i := 0; i < n && len(slots) > 0; i++ {
			s := slots[r.Intn(len(slots))]
			switch getSlot(s).(type) {
			case string:
				_, v := gstr(r)
				if chance(r, 40) {
					v = pickStr(r, "", "a", "a/b", "a/b=c", "A=", "=", "/", ".", "..", "-", "1", "a.b/c.d", "x/y=z:", strings.Repeat("n", 64), "prestart", "c", "rwm")
				}
				setSlot(s, v)
			case int, int64, uint32, uint64:
				setSlot(s, []any{0, -1, 1, RawNum("4294967295"), RawNum("4294967296"), RawNum("9223372036854775807"), RawNum("-9223372036854775808"), RawNum("9223372036854775808")}[r.Intn(8)])
			case []any:
				setSlot(s, []any{[]any{}, []any{nil}, nil}[r.Intn(3)])
			case *OMap:
				setSlot(s, []any{&OMap{}, nil}[r.Intn(2)])
			default:
				continue
			}
			what = append(what, s.path)
		}
		return emit(d), "hostile leaves at " + strings.Join(what, ",")
	case k < 55: // structure-aware mutations
		_, d := valid()
		var slots []docSlot
		collectSlots(d, "", &slots)
		n := 1 + r.Intn(3)
		var what []string
		for i := 0; i < n && len(slots) > 0; i++ {
			s := slots[r.Intn(len(slots))]
			var nv any
			switch r.Intn(120) {
			case 0, 1, 2, 3:
				nv = deepList(200)
			case 4:
				nv = deepList(12000)
			case 6, 7:
				nv = strings.Repeat("A", 100000)
			case 5:
				big := make([]any, 20000)
				for j := range big {
					big[j] = "A=b"
				}
				nv = big
			default:
				nv = cloneDoc(c08Hostile[r.Intn(len(c08Hostile))])
			}
			setSlot(s, nv)
			what = append(what, s.path)
		}
		if chance(r, 25) {
			// a member renamed to a hostile key, its value of a hostile type (annotation
			// maps are the place where arbitrary keys are legal)
			var objs []*OMap
			for _, sl := range slots {
				if o, ok := getSlot(sl).(*OMap); ok && len(o.K) > 0 {
					objs = append(objs, o)
				}
			}
			if v, ok := d.Get("annotations"); ok {
				if o, ok := v.(*OMap); ok && len(o.K) > 0 {
					objs = append(objs, o, o, o)
				}
			} else if chance(r, 50) {
				o := om("k", "v")
				d.Set("annotations", o)
				objs = append(objs, o, o, o)
			}
			if len(objs) > 0 {
				o := objs[r.Intn(len(objs))]
				i := r.Intn(len(o.K))
				o.K[i] = pickStr(r, "", "\n", "\n\n", " ", "\x00", "é", ".", "/", "a/b/c", strings.Repeat("k", 300),
					// qualified-name shapes: empty DNS labels, empty name or prefix, over-long parts
					"example.com./note", "a..b/c", ".a/b", "a/", "/a", "a//b", "-/a", "./.", "../..", strings.Repeat("a.", 130)+"/x", "a/"+strings.Repeat("n", 64), "a.b/\xff", strings.Repeat(".", 300)+"/k")
				if chance(r, 60) {
					o.V[i] = pickStr(r, "v", "", "\n") // a plain string value: the key gets to be judged
				} else {
					o.V[i] = cloneDoc(c08Hostile[r.Intn(len(c08Hostile))])
				}
				what = append(what, "rekey")
			}
		}
		return emit(d), "structural mutation at " + strings.Join(what, ",")
	case k < 68: // YAML features
		t := c08YAML[r.Intn(len(c08YAML))]
		if chance(r, 30) {
			_, d := valid()
			return []byte(emitYAML(d) + t), "valid document followed by a YAML feature snippet"
		}
		return []byte(t), "YAML feature snippet"
	case k < 92: // byte-level mutations of a valid document
		_, d := valid()
		b := emit(d)
		_, d2 := valid()
		other := emit(d2)
		n := 1 + r.Intn(4)
		var what []string
		for i := 0; i < n && len(b) > 0; i++ {
			pos := r.Intn(len(b))
			switch r.Intn(7) {
			case 0:
				b[pos] ^= 1 << uint(r.Intn(8))
				what = append(what, "bitflip")
			case 1:
				b = append(b[:pos:pos], b[pos+1:]...)
				what = append(what, "delete")
			case 2:
				end := pos + r.Intn(40)
				if end > len(b) {
					end = len(b)
				}
				b = append(b[:end:end], append(append([]byte{}, b[pos:end]...), b[end:]...)...)
				what = append(what, "duplicate")
			case 3:
				o := r.Intn(len(other))
				e := o + r.Intn(60)
				if e > len(other) {
					e = len(other)
				}
				b = append(b[:pos:pos], append(append([]byte{}, other[o:e]...), b[pos:]...)...)
				what = append(what, "splice")
			case 4:
				b = b[:pos]
				what = append(what, "truncate")
			case 5:
				ins := [][]byte{{0}, {0xff}, {0xfe, 0xff}, {0xef, 0xbb, 0xbf}, []byte("\n---\n"), []byte("\t"), []byte("&a "), []byte("*a "), []byte("!!x "), []byte(": "), []byte("- "), []byte("\u2028"), []byte("\u0085")}[r.Intn(13)]
				b = append(b[:pos:pos], append(append([]byte{}, ins...), b[pos:]...)...)
				what = append(what, "insert")
			default:
				const repl = "{}[],:\"'\\-#&*!|>%@`\n "
				b[pos] = repl[r.Intn(len(repl))]
				what = append(what, "replace")
			}
		}
		return b, "byte mutations: " + strings.Join(what, ",")
	default: // random bytes
		b := make([]byte, r.Intn(200))
		r.Read(b)
		return b, "random bytes"
	}
}

// childC08Watch: holds an auto-refresh cache on [anchor, dir] and answers
// "sync" commands with a JSON line {devices, err_keys} after logical quiescence.
func childC08Watch(args []string) int {
	anchor, dir := args[0], args[1]
	a, err := newAutoCache(filepath.Dir(anchor), anchor, []string{anchor, dir})
	if err != nil {
		fmt.Println(`{"error":"no-inotify"}`)
		return 3
	}
	in := bufio.NewScanner(os.Stdin)
	out := json.NewEncoder(os.Stdout)
	for in.Scan() {
		if !a.Quiesce() {
			out.Encode(map[string]any{"error": "quiesce-timeout"})
			continue
		}
		var keys []string
		for k := range a.C.GetErrors() {
			keys = append(keys, k)
		}
		out.Encode(map[string]any{"devices": a.C.ListDevices(), "err_keys": keys})
	}
	return 0
}

func threadCPU() time.Duration {
	var ru unix.Rusage
	unix.Getrusage(unix.RUSAGE_THREAD, &ru)
	return time.Duration(ru.Utime.Nano() + ru.Stime.Nano())
}

type refuseAllValidator struct{}

func (refuseAllValidator) Validate(*specs.Spec) error {
	return fmt.Errorf("refused by the test validator")
}

func checkC08(c *Ctx) {
	c.Rule = "hostile byte strings as Spec file content (.json and .yaml; now and then behind a symbolic link, as a dangling link or as a file that vanishes at once): structure-aware mutations of valid documents (any value -> null / wrong type / empty / one letter / 100 KB string / 12000-deep nesting / 20000 elements / numeric extremes), YAML features (recursive and expanding aliases, merge keys, tags, multi-document, BOM, tabs, directives, complex and non-string keys), byte-level mutations (bit flip, delete, duplicate, splice, truncate, insert, replace) and random bytes, through ParseSpec, ReadSpec, Cache.Refresh+GetErrors, schema ValidateData/ValidateReader/Validate, and InjectDevices of every loadable mutated Spec into G-OCI specs; G-STR strings through cdi.ParseAnnotations/AnnotationKey/AnnotationValue/UpdateAnnotations and parser.*; plus a child process with an auto-refresh cache into whose directory hostile files are dropped: after each, a known-good file must get listed (the watcher goroutine lives); oracle: no panic, no fatal error/exit of the child, no call above 20 s CPU; distinct_nontrivial = distinct inputs (by hash) that got past the parser (reached validation or loaded)"
	c.Assume("inputs <= 256 KiB", "only recoverable panics and process death are observable", "per-call CPU time is measured with RUSAGE_THREAD on a locked OS thread")
	dir := filepath.Join(c.Scratch, "c08")
	must(os.MkdirAll(dir, 0o755))
	builtin := schema.BuiltinSchema()
	noneSchema, _ := schema.Load("none")
	type current struct {
		start time.Time
		data  []byte
		how   string
	}
	workers := runtime.NumCPU()
	cur := make([]atomic.Pointer[current], 4096)
	// wall-clock watchdog: a call that never returns is reported once it has been stuck for 180 s
	stopWatch := make(chan struct{})
	go func() {
		for {
			select {
			case <-stopWatch:
				return
			case <-time.After(5 * time.Second):
				for i := range cur {
					if p := cur[i].Load(); p != nil && time.Since(p.start) > 180*time.Second {
						c.violation(fmt.Sprintf("worker:%d", i), "hang", nil, "a call has not returned for 180 s: "+p.how, map[string]any{"input": string(p.data), "input_bytes": p.data})
						code := c.Finish()
						os.Exit(code)
					}
				}
			}
		}
	}()
	defer close(stopWatch)
	_ = workers
	per := 100
	n := c.pick(30000, 1500000) / per
	var slot atomic.Int64
	c.RunCases("gen", n, 0, func(cs *Case) {
		runtime.LockOSThread()
		defer runtime.UnlockOSThread()
		my := int(slot.Add(1)) % len(cur)
		r := cs.R
		sub := filepath.Join(dir, sanitize(cs.Name))
		must(os.MkdirAll(sub, 0o755))
		defer os.RemoveAll(sub)
		c.AddEvaluations(per - 1)
		for it := 0; it < per; it++ {
			data, how := c08Input(r)
			if len(data) > 256<<10 {
				data = data[:256<<10]
			}
			ext := pickStr(r, "json", "yaml")
			cur[my].Store(&current{time.Now(), data, how})
			cpu0 := threadCPU()
			call := func(entry string, f func()) bool {
				if pv, st := guard(f); pv != nil {
					cs.Violation("panic", map[string]string{"entry": entry}, fmt.Sprintf("%s panics (%s): %v", entry, how, pv), map[string]any{"entry": entry, "how": how, "input": clip(string(data), 20000), "input_bytes_len": len(data), "ext": ext, "stack": st})
					return false
				}
				return true
			}
			var raw *specs.Spec
			var perr error
			if !call("cdi.ParseSpec", func() { raw, perr = cdi.ParseSpec(data) }) {
				continue
			}
			path := filepath.Join(sub, "h."+ext)
			os.Remove(path)
			entry := "file"
			switch r.Intn(60) {
			case 0: // a Spec name that is a dangling symbolic link
				entry = "dangling-link"
				must(os.Symlink(filepath.Join(sub, "no-such-target"), path))
			case 1: // a Spec name that is a symbolic link to the hostile content
				entry = "link"
				must(os.WriteFile(filepath.Join(sub, "target"), data, 0o644))
				must(os.Symlink(filepath.Join(sub, "target"), path))
			case 2: // links that cannot even be stat'ed: to itself (ELOOP), through a regular file (ENOTDIR)
				entry = "link-loop"
				must(os.Symlink(path, path))
			case 3:
				entry = "link-through-file"
				must(os.WriteFile(filepath.Join(sub, "target"), data, 0o644))
				must(os.Symlink(filepath.Join(sub, "target", "inner.json"), path))
			case 4: // a name too long for any file system behind the link
				entry = "link-name-too-long"
				must(os.Symlink(filepath.Join(sub, strings.Repeat("n", 300)), path))
			case 5: // a directory under a Spec name
				entry = "directory"
				must(os.Mkdir(path, 0o755))
			default:
				must(os.WriteFile(path, data, 0o644))
			}
			if entry != "file" {
				how += " [" + entry + "]"
				c.Count("entries:"+entry, 1)
			}
			var loaded *cdi.Spec
			var rerr error
			if !call("cdi.ReadSpec", func() { loaded, rerr = cdi.ReadSpec(path, 0) }) {
				continue
			}
			if perr == nil && raw != nil {
				c.Count("inputs_reaching_validation", 1)
				c.Distinct(string(data[:min(len(data), 4096)]))
			}
			if rerr == nil {
				c.Count("inputs_loadable", 1)
			}
			ok := call("Cache.Refresh", func() {
				cache, _ := cdi.NewCache(cdi.WithSpecDirs(sub), cdi.WithAutoRefresh(false))
				rr := cache.Refresh()
				errs := cache.GetErrors()
				devs := cache.ListDevices()
				if entry == "directory" {
					// a subdirectory is ignored by the scan whatever its name: no entry, no device
					if len(errs) > 0 || len(devs) > 0 {
						cs.Violation("no-error-entry", nil, fmt.Sprintf("a subdirectory with a Spec name is not ignored: errors %v, devices %v", errs, devs), nil)
					}
				} else if (rerr != nil) != (len(errs[path]) > 0) || (rerr != nil && rr == nil) || (rerr == nil && len(devs) == 0) {
					cs.Violation("no-error-entry", nil, fmt.Sprintf("ReadSpec says %v but the cache has error entries %v, lists %v, Refresh()=%v (%s)", rerr, errs, devs, rr, how), map[string]any{"how": how, "input": clip(string(data), 20000)})
				}
				// device-name strings through the cache, whether or not it holds an error
				// entry for the hostile file: unknown, hostile and (if any) resolvable names
				_, n1 := gstr(r)
				names := append([]string{"unknown.org/dev=none", n1, "vendor.com/gpu=" + n1, string(data[:min(len(data), 200)])}, devs...)
				r.Shuffle(len(names), func(i, j int) { names[i], names[j] = names[j], names[i] })
				cache.InjectDevices(genOCI(r), names...)
				cache.InjectDevices(nil, names...)
				cache.InjectDevices(genOCI(r)) // nothing requested
				cache.InjectDevices(genOCI(r), []string{}...)
				cache.InjectDevices(nil)
				for _, n := range names {
					cache.GetDevice(n)
				}
				cache.GetErrors()
				c.Count("requests_with_unresolvable_names_on_the_loaded_cache", 1)
				if rerr == nil {
					// every loadable Spec injected into OCI specs with nil / populated sections
					for k := 0; k < 3; k++ {
						o := genOCI(r)
						if k > 0 {
							o = hostileOCI(r)
							c.Count("injections_into_hostile_oci_specs", 1)
						}
						cache.InjectDevices(o, devs...)
					}
					for name := range loaded.Devices {
						_ = name
					}
					for i := range loaded.Devices {
						d := loaded.GetDevice(loaded.Devices[i].Name)
						if d != nil {
							d.ApplyEdits(genOCI(r))
							d.ApplyEdits(hostileOCI(r))
						}
					}
					loaded.ApplyEdits(genOCI(r))
					loaded.ApplyEdits(hostileOCI(r))
				}
			})
			if !ok {
				continue
			}
			call("schema.ValidateData", func() { builtin.ValidateData(data) })
			// every schema configuration is an entry point: the do-nothing ones too
			call("schema.ValidateData (none, nil)", func() {
				noneSchema.ValidateData(data)
				var nilSchema *schema.Schema
				nilSchema.ValidateData(data)
				nilSchema.ValidateReader(bytes.NewReader(data))
				if raw != nil {
					nilSchema.Validate(raw)
					noneSchema.Validate(raw)
				}
				nilSchema.ValidateFile(path)
				noneSchema.ValidateFile(path)
			})
			call("schema.ValidateReader", func() { builtin.ValidateReader(bytes.NewReader(data)) })
			if raw != nil {
				call("schema.Validate", func() { builtin.Validate(raw) })
				call("specs.MinimumRequiredVersion", func() { specs.MinimumRequiredVersion(raw); specs.ValidateVersion(raw) })
			}
			// strings
			_, s1 := gstr(r)
			_, s2 := gstr(r)
			if chance(r, 30) {
				s1 = string(data[:min(len(data), 300)])
			}
			call("cdi.AnnotationKey", func() { cdi.AnnotationKey(s1, s2) })
			call("cdi.AnnotationValue", func() { cdi.AnnotationValue([]string{s1, s2, "a/b=c"}) })
			call("empty device lists", func() {
				cdi.AnnotationValue(nil)
				cdi.AnnotationValue([]string{})
				cdi.UpdateAnnotations(map[string]string{}, "vendor.com_gpu", "id0", nil)
				cdi.UpdateAnnotations(nil, "vendor.com_gpu", "id0", []string{})
				cdi.ParseAnnotations(nil)
				cdi.ParseAnnotations(map[string]string{"cdi.k8s.io/x": ""})
			})
			call("cdi.UpdateAnnotations", func() { cdi.UpdateAnnotations(map[string]string{s1: s2}, s2, s1, []string{s1}) })
			call("cdi.ParseAnnotations", func() {
				cdi.ParseAnnotations(map[string]string{"cdi.k8s.io/" + s1: s2, s2: s1, "cdi.k8s.io/x": s1 + "," + s2})
			})
			call("parser", func() {
				for _, s := range []string{s1, s2, s1 + "/" + s2, s1 + "=" + s2, s1 + "/" + s2 + "=" + s1} {
					parser.ParseQualifiedName(s)
					parser.ParseDevice(s)
					parser.ParseQualifier(s)
					parser.IsQualifiedName(s)
					parser.ValidateVendorName(s)
					parser.ValidateClassName(s)
					parser.ValidateDeviceName(s)
				}
			})
			if used := threadCPU() - cpu0; used > 20*time.Second {
				cs.Violation("cpu-time", nil, fmt.Sprintf("processing one input of %d bytes took %v of CPU (%s)", len(data), used, how), map[string]any{"how": how, "input": clip(string(data), 20000)})
			}
			cur[my].Store(nil)
			os.Remove(path)
		}
	})
	// external Spec validators come and go (the cdi tool installs one; a runtime may
	// swap it): one that refuses a file is an error for that file, never the end of
	// all later calls
	c.RunNamed([]string{"validators"}, 1, func(cs *Case) {
		vdir := filepath.Join(dir, "validators")
		must(os.MkdirAll(vdir, 0o755))
		good := filepath.Join(vdir, "good.json")
		must(os.WriteFile(good, []byte(`{"cdiVersion":"0.6.0","kind":"vendor.com/gpu","devices":[{"name":"d","containerEdits":{"env":["A=b"]}}]}`), 0o644))
		step := func(what string, f func()) bool {
			done := make(chan any, 1)
			go func() {
				defer func() { done <- recover() }()
				f()
			}()
			select {
			case p := <-done:
				if p != nil {
					cs.Violation("panic", nil, fmt.Sprintf("%s panics: %v", what, p), nil)
					return false
				}
				c.Count("validator_steps", 1)
				return true
			case <-time.After(60 * time.Second):
				cs.Violation("hang", map[string]string{"phase": "validators"}, fmt.Sprintf("%s has not returned for 60 s (after a Spec validator refused a file and was replaced)", what), nil)
				os.Exit(c.Finish()) // whatever is stuck holds locks every later call needs
				return false
			}
		}
		defer cdi.SetSpecValidator(nil)
		for round := 0; round < 3; round++ {
			for _, v := range []interface{ Validate(*specs.Spec) error }{refuseAllValidator{}, acceptAllValidator{}, builtin, refuseAllValidator{}} {
				v := v
				if !step("SetSpecValidator", func() { cdi.SetSpecValidator(v) }) ||
					!step("ReadSpec with a validator installed", func() { cdi.ReadSpec(good, 0) }) ||
					!step("NewCache+Refresh+ListDevices with a validator installed", func() {
						cc, _ := cdi.NewCache(cdi.WithSpecDirs(vdir), cdi.WithAutoRefresh(false))
						cc.Refresh()
						cc.ListDevices()
						cc.GetErrors()
					}) ||
					!step("WriteSpec with a validator installed", func() {
						cc, _ := cdi.NewCache(cdi.WithSpecDirs(filepath.Join(vdir, "w")), cdi.WithAutoRefresh(false))
						cc.WriteSpec(&specs.Spec{Version: "0.6.0", Kind: "vendor.com/gpu", Devices: []specs.Device{{Name: "d", ContainerEdits: specs.ContainerEdits{Env: []string{"A=b"}}}}}, "w.json")
					}) {
					return
				}
			}
		}
		step("SetSpecValidator(nil)", func() { cdi.SetSpecValidator(nil) })
	})
	c.Floor("validator_steps", 40)
	// mode 1c: Spec files that are fine one by one and define the same devices three and
	// more times over, in one directory and across directories: loading and every query
	// survive whatever the combination (a conflict is a state, not an accident)
	c.RunCases("multi", c.pick(60, 1500), 0, func(cs *Case) {
		r := cs.R
		root := filepath.Join(c.Scratch, sanitize(cs.Name))
		defer os.RemoveAll(root)
		var dirs []string
		for i := 0; i < 1+r.Intn(3); i++ {
			d := filepath.Join(root, fmt.Sprintf("d%d", i))
			must(os.MkdirAll(d, 0o755))
			dirs = append(dirs, d)
			for k := 0; k < 1+r.Intn(4); k++ {
				devs := []string{"dev0", "dev1", "dev2"}[:1+r.Intn(3)]
				body := ""
				for j, dv := range devs {
					if j > 0 {
						body += ","
					}
					body += fmt.Sprintf(`{"name":"%s","containerEdits":{"env":["D=%d.%d"]}}`, dv, i, k)
				}
				must(os.WriteFile(filepath.Join(d, fmt.Sprintf("f%d.json", k)), []byte(`{"cdiVersion":"0.6.0","kind":"vendor.com/gpu","devices":[`+body+`]}`), 0o644))
			}
		}
		if pv, st := guard(func() {
			cache, _ := cdi.NewCache(cdi.WithSpecDirs(dirs...), cdi.WithAutoRefresh(false))
			cache.Refresh()
			for _, q := range []string{"vendor.com/gpu=dev0", "vendor.com/gpu=dev1", "vendor.com/gpu=dev2"} {
				cache.GetDevice(q)
				cache.InjectDevices(genOCI(r), q)
			}
			cache.ListDevices()
			cache.GetErrors()
			for _, v := range cache.ListVendors() {
				for _, sp := range cache.GetVendorSpecs(v) {
					cache.GetSpecErrors(sp)
				}
			}
		}); pv != nil {
			cs.Violation("panic", map[string]string{"shape": "several-definitions"}, fmt.Sprintf("loading and querying Spec files that define the same devices several times over panics: %v", pv), map[string]any{"stack": st})
		}
		c.Count("populations_with_repeated_definitions", 1)
	})
	// mode 2: the watcher goroutine of a child process
	exe, _ := os.Executable()
	nbatch := c.pick(4, 30)
	perBatch := c.pick(20, 50)
	c.RunCases("watch", nbatch, 4, func(cs *Case) {
		r := cs.R
		root := filepath.Join(c.Scratch, sanitize(cs.Name))
		anchor, wdir, stage := filepath.Join(root, "anchor"), filepath.Join(root, "watched"), filepath.Join(root, "stage")
		for _, d := range []string{anchor, wdir, stage} {
			must(os.MkdirAll(d, 0o755))
		}
		defer os.RemoveAll(root)
		cmd := exec.Command(exe, "child-c08watch", anchor, wdir)
		stdin, _ := cmd.StdinPipe()
		stdout, _ := cmd.StdoutPipe()
		errf, _ := os.Create(filepath.Join(root, "stderr"))
		cmd.Stderr = errf
		if err := cmd.Start(); err != nil {
			c.Inconclusive("child-start")
			return
		}
		sc := bufio.NewScanner(stdout)
		sc.Buffer(make([]byte, 1<<20), 1<<26)
		sync := func() (map[string]any, bool) {
			if _, err := stdin.Write([]byte("sync\n")); err != nil {
				return nil, false
			}
			done := make(chan bool, 1)
			var m map[string]any
			go func() {
				if sc.Scan() {
					json.Unmarshal(sc.Bytes(), &m)
					done <- true
				} else {
					done <- false
				}
			}()
			select {
			case ok := <-done:
				return m, ok
			case <-time.After(240 * time.Second):
				return nil, false
			}
		}
		died := func(what string, data []byte, how string) {
			stdin.Close()
			cmd.Process.Kill()
			cmd.Wait()
			errf.Close()
			se, _ := os.ReadFile(filepath.Join(root, "stderr"))
			cls := "watcher-process-died"
			if !bytes.Contains(se, []byte("panic")) && !bytes.Contains(se, []byte("fatal error")) {
				cls = "watcher-process-stuck"
			}
			cs.Violation(cls, nil, fmt.Sprintf("the process holding an auto-refresh cache %s after a hostile file was dropped into its Spec directory (%s): %s", what, how, clip(string(se), 3000)), map[string]any{"how": how, "input": clip(string(data), 20000), "stderr": clip(string(se), 20000)})
		}
		for i := 0; i < perBatch; i++ {
			data, how := c08Input(r)
			if len(data) > 256<<10 {
				data = data[:256<<10]
			}
			name := fmt.Sprintf("h%d.%s", i, pickStr(r, "json", "yaml"))
			// on disk first, then moved into the watched directory
			switch r.Intn(12) {
			case 0:
				how += " [dangling-link]"
				must(os.Symlink(filepath.Join(stage, "no-such-target"), filepath.Join(wdir, name)))
			case 1:
				how += " [vanishes at once]"
				must(os.WriteFile(filepath.Join(stage, name), data, 0o644))
				must(os.Rename(filepath.Join(stage, name), filepath.Join(wdir, name)))
				os.Remove(filepath.Join(wdir, name))
			default:
				must(os.WriteFile(filepath.Join(stage, name), data, 0o644))
				must(os.Rename(filepath.Join(stage, name), filepath.Join(wdir, name)))
			}
			m, ok := sync()
			if !ok {
				died("died or hangs", data, how)
				return
			}
			if m["error"] != nil {
				c.Inconclusive(fmt.Sprint(m["error"]))
				break
			}
			// a known-good file must be picked up: the watcher goroutine is alive
			good := fmt.Sprintf(`{"cdiVersion":"0.6.0","kind":"good.org/alive","devices":[{"name":"g%d","containerEdits":{"env":["G=1"]}}]}`, i)
			gname := fmt.Sprintf("good%d.json", i)
			must(os.WriteFile(filepath.Join(stage, gname), []byte(good), 0o644))
			must(os.Rename(filepath.Join(stage, gname), filepath.Join(wdir, gname)))
			m, ok = sync()
			if !ok {
				died("died or hangs", data, how)
				return
			}
			listed := false
			if devs, _ := m["devices"].([]any); devs != nil {
				for _, d := range devs {
					if d == fmt.Sprintf("good.org/alive=g%d", i) {
						listed = true
					}
				}
			}
			c.Count("files_through_watcher", 1)
			if !listed && m["error"] == nil {
				cs.Violation("watcher-dead", nil, fmt.Sprintf("after the hostile file %s (%s) the auto-refresh cache no longer notices a good file", name, how), map[string]any{"how": how, "input": clip(string(data), 20000), "reply": m})
				break
			}
			os.Remove(filepath.Join(wdir, gname))
			if chance(r, 70) {
				os.Remove(filepath.Join(wdir, name))
			}
		}
		stdin.Close()
		cmd.Wait()
		errf.Close()
	})
	c.Sample(3, map[string]any{"input": "a: &a [*a]", "expected": "an error (recursive alias), no panic, no hang"})
	c.Sample(3, map[string]any{"input": "devices[0].containerEdits.deviceNodes = [null]", "expected": "an error entry for the file; the watcher goroutine keeps running"})
	c.Floor("inputs_reaching_validation", int64(c.pick(8000, 300000)))
	c.Floor("inputs_loadable", 200)
	c.Floor("files_through_watcher", int64(nbatch*perBatch/2))
}
