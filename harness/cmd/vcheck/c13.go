package main

// C13 — a bad Spec file or directory affects only itself and is reported.
// Fault enumeration: every fault kind at every directory position / file of a
// good population, then a repair step; permission faults run in a child
// process with uid 65534 (root ignores permission bits).

import (
	"bufio"
	"encoding/json"
	"fmt"
	"os"
	"os/exec"
	"path/filepath"
	"sort"
	"strings"
	"sync"
	"sync/atomic"
	"syscall"
	"time"

	"tags.cncf.io/container-device-interface/pkg/cdi"
)

func init() {
	register("C13", checkC13)
	registerChild("report", childReport)
	registerChild("c13default", childC13Default)
}

type RepDev struct {
	Path string `json:"path"`
	Prio int    `json:"prio"`
	Def  string `json:"def"`
}

type Report struct {
	Devices    map[string]RepDev `json:"devices"`
	ErrKeys    []string          `json:"err_keys"`
	RefreshErr string            `json:"refresh_err"`
	Panic      string            `json:"panic,omitempty"`
}

func makeReport(c *cdi.Cache, refresh bool) (rep Report) {
	rep.Devices = map[string]RepDev{}
	if pv, st := guard(func() {
		if refresh {
			if err := c.Refresh(); err != nil {
				rep.RefreshErr = err.Error()
			}
		}
		for _, q := range c.ListDevices() {
			d := c.GetDevice(q)
			if d == nil {
				rep.Devices[q] = RepDev{Path: "<listed but GetDevice is nil>"}
				continue
			}
			rep.Devices[q] = RepDev{d.GetSpec().GetPath(), d.GetSpec().GetPriority(), normJSON(d.Device)}
		}
		for k := range c.GetErrors() {
			rep.ErrKeys = append(rep.ErrKeys, k)
		}
		sort.Strings(rep.ErrKeys)
	}); pv != nil {
		rep.Panic = fmt.Sprintf("%v\n%s", pv, st)
	}
	return
}

// compareReport checks a report against M-RESOLVE. mustHaveErr: Spec files that
// must have an error entry; refreshMustFail/refreshMustSucceed: constraint on
// the Refresh() result (both false = unconstrained).
func compareReport(rep Report, res *Resolved, mustHaveErr map[string]bool, refreshMustFail, refreshMustSucceed bool) []string {
	var bad []string
	if rep.Panic != "" {
		return []string{"panic: " + rep.Panic}
	}
	for q, w := range res.Devices {
		g, ok := rep.Devices[q]
		switch {
		case !ok:
			bad = append(bad, fmt.Sprintf("%s does not resolve although the valid file %s defines it", q, w.Path))
		case g.Path != w.Path || g.Prio != w.Prio || g.Def != normJSON(w.Dev):
			bad = append(bad, fmt.Sprintf("%s resolves to %s (priority %d), expected %s (priority %d)", q, g.Path, g.Prio, w.Path, w.Prio))
		}
	}
	for q, g := range rep.Devices {
		if _, ok := res.Devices[q]; !ok {
			bad = append(bad, fmt.Sprintf("%s resolves (to %s) but should not", q, g.Path))
		}
	}
	keys := map[string]bool{}
	for _, k := range rep.ErrKeys {
		keys[k] = true
	}
	for p := range mustHaveErr {
		if !keys[p] {
			bad = append(bad, fmt.Sprintf("failing Spec file %s has no entry in GetErrors() (keys: %v)", p, rep.ErrKeys))
		}
	}
	if refreshMustFail && rep.RefreshErr == "" {
		bad = append(bad, "Refresh() returned nil although a Spec file is in error")
	}
	if refreshMustSucceed && rep.RefreshErr != "" {
		bad = append(bad, "Refresh() returned an error although every directory is readable or absent and every Spec file is valid: "+rep.RefreshErr)
	}
	return bad
}

// childReport: `vcheck child-report <dir>...`; for every line read from stdin
// it refreshes a manual cache on the directories and prints a Report as JSON.
func childReport(args []string) int {
	c, _ := cdi.NewCache(cdi.WithSpecDirs(args...), cdi.WithAutoRefresh(false))
	in := bufio.NewScanner(os.Stdin)
	out := json.NewEncoder(os.Stdout)
	for in.Scan() {
		out.Encode(makeReport(c, true))
	}
	return 0
}

type reportChild struct {
	cmd *exec.Cmd
	in  *bufio.Writer
	out *bufio.Scanner
	w   interface{ Close() error }
}

var childExe struct {
	once sync.Once
	path string
	err  error
}

// unprivilegedExe returns a copy of this binary that uid 65534 can execute
// (the harness may live under a directory only root can enter).
func unprivilegedExe(scratch string) (string, error) {
	childExe.once.Do(func() {
		exe, err := os.Executable()
		if err != nil {
			childExe.err = err
			return
		}
		data, err := os.ReadFile(exe)
		if err != nil {
			childExe.err = err
			return
		}
		os.Chmod(scratch, 0o755)
		childExe.path = filepath.Join(scratch, "vcheck-child")
		childExe.err = os.WriteFile(childExe.path, data, 0o755)
	})
	return childExe.path, childExe.err
}

func startReportChild(scratch string, uid uint32, dirs []string) (*reportChild, error) {
	exe, err := unprivilegedExe(scratch)
	if err != nil {
		return nil, err
	}
	cmd := exec.Command(exe, append([]string{"child-report"}, dirs...)...)
	cmd.SysProcAttr = &syscall.SysProcAttr{Credential: &syscall.Credential{Uid: uid, Gid: uid}}
	cmd.Stderr = nil
	cmd.Dir = "/"
	stdin, err := cmd.StdinPipe()
	if err != nil {
		return nil, err
	}
	stdout, err := cmd.StdoutPipe()
	if err != nil {
		return nil, err
	}
	if err := cmd.Start(); err != nil {
		return nil, err
	}
	sc := bufio.NewScanner(stdout)
	sc.Buffer(make([]byte, 1<<20), 1<<26)
	return &reportChild{cmd: cmd, in: bufio.NewWriter(stdin), out: sc, w: stdin}, nil
}

func (rc *reportChild) Refresh() (Report, error) {
	var rep Report
	if _, err := rc.in.WriteString("refresh\n"); err != nil {
		return rep, err
	}
	if err := rc.in.Flush(); err != nil {
		return rep, err
	}
	if !rc.out.Scan() {
		return rep, fmt.Errorf("child ended: %v", rc.out.Err())
	}
	return rep, json.Unmarshal(rc.out.Bytes(), &rep)
}

func (rc *reportChild) Close() {
	rc.w.Close()
	rc.cmd.Wait()
}

type c13Fault struct {
	kind   string // file: syntax semantic empty version dangling unreadable vanish replace-invalid; dir: missing isfile enotdir noread nosearch
	target int    // file index (file faults) or physical dir index (dir faults)
}

var c13FileFaults = []string{"syntax", "semantic", "empty", "version", "dangling", "vanish", "replace-invalid", "unreadable", "linkdir-spec", "linkdir-plain"}
var c13DirFaults = []string{"missing", "isfile", "enotdir", "noread", "nosearch"}

func isPermFault(k string) bool { return k == "unreadable" || k == "noread" || k == "nosearch" }

// childC13Default: the package-level default cache in a process of its own; the
// first thing asked of it is args[0] ("refresh", "errors-first", "configure-first").
func childC13Default(args []string) int {
	first, dirs := args[0], args[1:]
	cdi.DefaultSpecDirs = dirs
	out := map[string]any{}
	switch first {
	case "errors-first":
		out["errors_before"] = len(cdi.GetDefaultCache().GetErrors())
	case "configure-first":
		cdi.Configure(cdi.WithSpecDirs(dirs...))
	}
	e1 := cdi.Refresh()
	out["first_refresh_failed"] = e1 != nil
	var keys []string
	for k := range cdi.GetDefaultCache().GetErrors() {
		keys = append(keys, k)
	}
	sort.Strings(keys)
	out["err_keys"] = keys
	out["second_refresh_failed"] = cdi.Refresh() != nil
	out["devices"] = cdi.GetDefaultCache().ListDevices()
	json.NewEncoder(os.Stdout).Encode(out)
	return 0
}

func checkC13(c *Ctx) {
	c.Level = "fault_enumeration"
	c.Rule = "for seeded good populations (2-4 directories, colliding definitions): every fault kind (file: syntax error, semantic error, empty, unreleased version, dangling symlink, vanishes between listing and reading, replaced by invalid content between listing and reading [scan.beforeRead hook], unreadable; directory: missing, is a regular file, non-directory ancestor, no read permission, no search permission [child process as uid 65534]) plus a symbolic link to a directory, with and without a Spec name, next to the Spec files; at every configured-directory position and at up to 4 Spec files, alone or with a second random fault, manual mode (file faults also in auto-refresh mode), followed by a repair (the file rewritten with good content, renamed to a non-Spec name, moved out of the directory or removed) and another refresh; distinct_nontrivial = distinct (fault kind, position class first/middle/last or file's directory position, second fault kind, mode)"
	c.Assume("permission faults are observed from a child running as uid 65534 (the harness itself is root)", "a file that vanished before it could be read need not be reported; Refresh()'s result is unconstrained for conflict-only populations and when a directory cannot be scanned", "M-RESOLVE: a directory that cannot be scanned contributes nothing")
	os.Chmod(c.Scratch, 0o755)
	npop := c.pick(14, 400)
	c.RunCases("pop", npop, 0, func(cs *Case) {
		r := cs.R
		root := filepath.Join(c.Scratch, sanitize(cs.Name))
		must(os.MkdirAll(root, 0o755))
		defer func() {
			filepath.Walk(root, func(p string, info os.FileInfo, err error) error {
				if info != nil && info.IsDir() {
					os.Chmod(p, 0o755)
				}
				return nil
			})
			os.RemoveAll(root)
		}()
		// a good population: no invalid files, at least 2 directories
		var base *Pop
		for {
			base = genPop(r, root).DropTwins()
			ok := len(base.Phys) >= 2
			for _, f := range base.Files {
				if f.Kind != "valid" {
					ok = false
				}
			}
			for _, e := range base.Exists {
				if !e {
					ok = false
				}
			}
			if ok && len(base.Files) > 0 {
				break
			}
		}
		// enumerate placements
		var faults []c13Fault
		for d := range base.Phys {
			for _, k := range c13DirFaults {
				faults = append(faults, c13Fault{k, d})
			}
		}
		var specFiles []int
		for i, f := range base.Files {
			if f.specNamed() {
				specFiles = append(specFiles, i)
			}
		}
		r.Shuffle(len(specFiles), func(i, j int) { specFiles[i], specFiles[j] = specFiles[j], specFiles[i] })
		if len(specFiles) > 4 {
			specFiles = specFiles[:4]
		}
		for _, fi := range specFiles {
			for _, k := range c13FileFaults {
				faults = append(faults, c13Fault{k, fi})
			}
		}
		for n, f := range faults {
			var second *c13Fault
			if chance(r, 30) {
				g := faults[r.Intn(len(faults))]
				// keep them independent: different directory / file, same privilege class
				if g.target != f.target && isPermFault(g.kind) == isPermFault(f.kind) && g.kind != "vanish" && g.kind != "replace-invalid" && f.kind != "vanish" && f.kind != "replace-invalid" {
					isDir := func(k string) bool {
						return k == "missing" || k == "isfile" || k == "enotdir" || k == "noread" || k == "nosearch"
					}
					if isDir(g.kind) == isDir(f.kind) {
						second = &g
					}
				}
			}
			// (the two faults injected from inside a scan need a scan we control: manual mode)
			auto := !isPermFault(f.kind) && f.kind != "vanish" && f.kind != "replace-invalid" && chance(r, 30)
			c13Scenario(cs, base, f, second, auto, fmt.Sprintf("%s/fault:%d", cs.Name, n))
			c.AddEvaluations(1)
			if !auto && second == nil && (f.kind == "missing" || f.kind == "isfile" || f.kind == "enotdir") {
				// a directory that cannot be scanned (and cannot be watched): always in
				// auto-refresh mode as well, whatever the PRNG chose above
				// (once staying in auto-refresh mode through the repair, once switched to manual
				// refresh while the fault is still there)
				c13Scenario(cs, base, f, nil, true, fmt.Sprintf("%s/fault:%d/auto", cs.Name, n))
				c13Scenario(cs, base, f, nil, true, fmt.Sprintf("%s/fault:%d/auto-then-manual", cs.Name, n))
				c.AddEvaluations(2)
			}
			if !auto && second == nil && !isPermFault(f.kind) && f.kind != "vanish" && f.kind != "replace-invalid" && nameHash(fmt.Sprintf("%s/%d", cs.Name, n))%3 == 0 {
				// (file and directory faults alike: reconfigured with the same directories in between)
				c13Scenario(cs, base, f, nil, true, fmt.Sprintf("%s/fault:%d/auto-reconfigured", cs.Name, n))
				c.AddEvaluations(1)
			}
		}
	})
	// auto-refresh mode: a Spec file is repaired (or broken) while the cache is being
	// constructed or reconfigured, from inside the scan, after the scan has read it
	c.RunCases("during-setup", c.pick(24, 300), 4, func(cs *Case) {
		r := cs.R
		root := filepath.Join(c.Scratch, sanitize(cs.Name))
		anchor, d := filepath.Join(root, "anchor"), filepath.Join(root, "d")
		must(os.MkdirAll(anchor, 0o755))
		must(os.MkdirAll(d, 0o755))
		defer os.RemoveAll(root)
		good := func(dev string) []byte {
			return []byte(fmt.Sprintf(`{"cdiVersion":"0.6.0","kind":"vendor.com/gpu","devices":[{"name":"%s","containerEdits":{"env":["A=b"]}}]}`, dev))
		}
		badContent := []byte(pickStr(r, "{", "", `{"cdiVersion":"0.6.0","kind":"vendor.com/gpu","devices":[]}`))
		first, last := filepath.Join(d, "a-first.json"), filepath.Join(d, "z-last.json")
		repair := chance(r, 50) // else: a good file is broken
		if repair {
			must(os.WriteFile(first, badContent, 0o644))
		} else {
			must(os.WriteFile(first, good("first"), 0o644))
		}
		must(os.WriteFile(last, good("last"), 0o644))
		var armed atomic.Bool
		unhook := hookPrefix(root, func(point, arg string, _ int) {
			if point == "scan.beforeRead" && arg == last && armed.CompareAndSwap(true, false) {
				// (the scan has read a-first.json by now; the new content arrives by one rename)
				tmp := filepath.Join(root, "staged-first.json")
				if repair {
					os.WriteFile(tmp, good("first"), 0o644)
				} else {
					os.WriteFile(tmp, badContent, 0o644)
				}
				os.Rename(tmp, first)
			}
		})
		defer unhook()
		dirs := []string{anchor, d}
		how := pickStr(r, "NewCache", "Configure", "a rescan of the watcher", "a rescan of the watcher")
		var a *autoCache
		var err error
		if how == "a rescan of the watcher" {
			a, err = newAutoCache(root, anchor, dirs)
			if err == nil {
				a.C.ListDevices()
				armed.Store(true)
				// one event (a file renamed into place) makes the watcher rescan; the change to
				// a-first.json is made from inside that rescan, by renaming a staged file over it
				must(os.WriteFile(filepath.Join(root, "trigger.json"), good("trigger"), 0o644))
				must(os.Rename(filepath.Join(root, "trigger.json"), filepath.Join(d, "m-trigger.json")))
				for i := 0; i < 400 && armed.Load(); i++ {
					time.Sleep(25 * time.Millisecond)
				}
			}
		} else if how == "NewCache" {
			armed.Store(true)
			a, err = newAutoCache(root, anchor, dirs)
		} else {
			a, err = newAutoCache(root, anchor, []string{anchor})
			if err == nil {
				armed.Store(true)
				a.C.Configure(cdi.WithSpecDirs(dirs...))
			}
		}
		if err != nil {
			c.Inconclusive("no-inotify")
			return
		}
		defer a.Close()
		if armed.Load() {
			c.Inconclusive("scan-hook-not-reached")
			return
		}
		if !a.Quiesce() {
			c.Inconclusive("quiesce-timeout")
			return
		}
		rerr := a.C.Refresh()
		errs := a.C.GetErrors()
		dev := a.C.GetDevice("vendor.com/gpu=first")
		c.Count("files_changed_during_the_setup_scan", 1)
		if repair && (rerr != nil || len(errs[first]) > 0 || dev == nil) {
			cs.Violation("stale-error", map[string]string{"mode": "auto", "shape": "repaired-during-" + how}, fmt.Sprintf("a Spec file in error was repaired while %s was scanning (after the scan had read it); afterwards Refresh() = %v, its error entry: %v, its device resolves: %v", how, rerr, errs[first], dev != nil), nil)
		}
		if !repair && (rerr == nil || len(errs[first]) == 0 || dev != nil) {
			cs.Violation("not-reported", map[string]string{"mode": "auto", "shape": "broken-during-" + how}, fmt.Sprintf("a valid Spec file was replaced by invalid content while %s was scanning (after the scan had read it); afterwards Refresh() = %v, its error entry: %v, its device still resolves: %v", how, rerr, errs[first], dev != nil), nil)
		}
	})
	// auto-refresh mode: a configured directory that was missing appears, holding a good
	// and a bad Spec file; the first thing asked of the cache is the explicit refresh
	c.RunCases("appears", c.pick(24, 300), 4, func(cs *Case) {
		r := cs.R
		root := filepath.Join(c.Scratch, sanitize(cs.Name))
		anchor, late, staging := filepath.Join(root, "anchor"), filepath.Join(root, "late"), filepath.Join(root, "staging")
		must(os.MkdirAll(anchor, 0o755))
		must(os.MkdirAll(staging, 0o755))
		defer os.RemoveAll(root)
		must(os.WriteFile(filepath.Join(staging, "good.json"), []byte(`{"cdiVersion":"0.6.0","kind":"vendor.com/gpu","devices":[{"name":"g","containerEdits":{"env":["A=b"]}}]}`), 0o644))
		bad := pickStr(r, "{", "", "cdiVersion: 0.6.0\nkind: vendor.com/gpu\ndevices: []\n", `{"cdiVersion":"9.9.9","kind":"vendor.com/gpu","devices":[{"name":"x","containerEdits":{"env":["A=b"]}}]}`)
		must(os.WriteFile(filepath.Join(staging, pickStr(r, "bad.json", "bad.yaml", "a-bad.json")), []byte(bad), 0o644))
		dirs := []string{anchor, late}
		if chance(r, 50) {
			dirs = []string{late, anchor}
		}
		a, err := newAutoCache(root, anchor, dirs)
		if err != nil {
			c.Inconclusive("no-inotify")
			return
		}
		defer a.Close()
		if chance(r, 50) {
			a.C.ListDevices()
		}
		must(os.Rename(staging, late))
		first := pickStr(r, "Refresh", "Refresh", "GetErrors-after-Refresh")
		rerr := a.C.Refresh()
		errs := a.C.GetErrors()
		c.Count("refreshes_as_first_use_after_a_directory_appeared", 1)
		var badKeys []string
		for k := range errs {
			if filepath.Dir(k) == late {
				badKeys = append(badKeys, k)
			}
		}
		if rerr == nil || len(badKeys) != 1 {
			cs.Violation("not-reported", map[string]string{"mode": "auto", "shape": "directory-appears"}, fmt.Sprintf("a missing configured directory appeared with a good and a bad Spec file; the explicit refresh right afterwards (%s) returns %v and the error report has %v for that directory", first, rerr, badKeys), map[string]any{"dirs": dirs, "bad_content": bad})
			return
		}
		if a.C.GetDevice("vendor.com/gpu=g") == nil {
			cs.Violation("isolation", map[string]string{"mode": "auto", "shape": "directory-appears"}, "the good Spec file of the directory that appeared does not resolve", nil)
		}
	})
	// the package-level default cache, whose first use in a process is the explicit
	// refresh (or a look at the errors, or a Configure): the same contract
	exeD, _ := os.Executable()
	c.RunCases("default-cache", c.pick(12, 120), 4, func(cs *Case) {
		r := cs.R
		root := filepath.Join(c.Scratch, sanitize(cs.Name))
		good, other := filepath.Join(root, "etc"), filepath.Join(root, "run")
		must(os.MkdirAll(good, 0o755))
		must(os.MkdirAll(other, 0o755))
		defer os.RemoveAll(root)
		must(os.WriteFile(filepath.Join(good, "ok.json"), []byte(`{"cdiVersion":"0.6.0","kind":"vendor.com/gpu","devices":[{"name":"d","containerEdits":{"env":["A=b"]}}]}`), 0o644))
		faulty := chance(r, 70)
		if faulty {
			must(os.WriteFile(filepath.Join(pickStr(r, good, other), "bad.yaml"), []byte(pickStr(r, "{", "", "cdiVersion: 0.6.0\nkind: vendor.com/gpu\ndevices: []\n")), 0o644))
		}
		first := pickStr(r, "refresh", "refresh", "errors-first", "configure-first")
		outb, err := exec.Command(exeD, append([]string{"child-c13default", first}, good, other)...).Output()
		var rep struct {
			First  bool     `json:"first_refresh_failed"`
			Second bool     `json:"second_refresh_failed"`
			Keys   []string `json:"err_keys"`
			Devs   []string `json:"devices"`
		}
		if err != nil || json.Unmarshal(outb, &rep) != nil {
			cs.Violation("child-died", nil, fmt.Sprintf("the process using the default cache died: %v: %s", err, clip(string(outb), 500)), nil)
			return
		}
		c.Count("default_cache_processes", 1)
		c.Distinct(fmt.Sprintf("default|%s|%v", first, faulty))
		if rep.First != faulty || rep.Second != faulty || (len(rep.Keys) > 0) != faulty || len(rep.Devs) != 1 {
			cs.Violation("refresh-result", map[string]string{"first_use": first}, fmt.Sprintf("default cache, first use = %s, a Spec file in error: %v: first Refresh() failed=%v, second failed=%v, error report %v, devices %v", first, faulty, rep.First, rep.Second, rep.Keys, rep.Devs), nil)
		}
	})
	c.Floor("default_cache_processes", 8)
	// overlapping explicit refreshes around a repair: a refresh that began before the
	// repair must not overwrite the result of one that began after it
	c.RunCases("overlap", c.pick(12, 120), 0, func(cs *Case) { c13Overlap(cs) })
	c.Floor("overlapping_refresh_scenarios", 5)
	for _, k := range append(append([]string{}, c13FileFaults...), c13DirFaults...) {
		c.Floor("fault:"+k, 3)
		c.Floor("repaired:"+k, 3)
	}
	c.Floor("dirfault_position:first", 3)
	c.Floor("dirfault_position:middle", 3)
	c.Floor("dirfault_position:last", 3)
}

// clonePop copies the model (files are shared immutable values).
func clonePop(p *Pop) *Pop {
	q := *p
	q.Phys = append([]string{}, p.Phys...)
	q.Exists = append([]bool{}, p.Exists...)
	q.Conf = append([]string{}, p.Conf...)
	q.ConfPhys = append([]int{}, p.ConfPhys...)
	q.Files = append([]*PFile{}, p.Files...)
	q.DirFault = map[int]string{}
	for k, v := range p.DirFault {
		q.DirFault[k] = v
	}
	return &q
}

func c13Scenario(cs *Case, base *Pop, f c13Fault, second *c13Fault, auto bool, name string) {
	c := cs.Ctx
	if c.replayCase != "" && c.replayCase != name && c.replayCase != cs.Name {
		return
	}
	p := clonePop(base)
	hookTarget, hookAction := "", ""
	mustErr := map[string]bool{}
	perm := false
	anyDirFault := false
	apply := func(ft c13Fault) {
		switch ft.kind {
		case "missing":
			p.Exists[ft.target] = false
			var keep []*PFile
			for _, x := range p.Files {
				if x.Phys != ft.target {
					keep = append(keep, x)
				}
			}
			p.Files = keep
		case "isfile", "noread", "nosearch":
			p.DirFault[ft.target] = ft.kind
			anyDirFault = true
			perm = perm || ft.kind != "isfile"
		case "enotdir":
			// the configured path becomes <file>/sub
			old := p.Phys[ft.target]
			p.Phys[ft.target] = filepath.Join(old+"-file", "sub")
			for i, ph := range p.ConfPhys {
				if ph == ft.target {
					p.Conf[i] = p.Phys[ft.target]
				}
			}
			p.DirFault[ft.target] = "enotdir"
			anyDirFault = true
		default: // file faults
			old := base.Files[ft.target]
			idx := -1
			for i, x := range p.Files {
				if x == old {
					idx = i
				}
			}
			if idx < 0 {
				return
			}
			nf := *old
			switch ft.kind {
			case "linkdir-spec", "linkdir-plain":
				// an extra entry next to the file: a symbolic link to a directory,
				// sorting before the other entries, with or without a Spec name
				lf := &PFile{Phys: old.Phys, Name: "0-link", Kind: "linkdir", Content: []byte(`{"cdiVersion":"0.6.0","kind":"linked.org/thing","devices":[{"name":"x","containerEdits":{"env":["A=b"]}}]}`)}
				if ft.kind == "linkdir-spec" {
					lf.Name = "0-link.json"
				}
				for _, x := range p.Files {
					if x.Phys == lf.Phys && x.Name == lf.Name {
						return
					}
				}
				p.Files = append(p.Files, lf)
				return
			case "syntax":
				nf.Kind, nf.Content = "syntax", []byte("{\"cdiVersion\": ")
			case "semantic":
				nf.Kind, nf.Content = "semantic", []byte(`{"cdiVersion":"0.6.0","kind":"vendor.com/gpu","devices":[{"name":"x","containerEdits":{}}]}`)
			case "empty":
				nf.Kind, nf.Content = "empty", nil
			case "version":
				nf.Kind, nf.Content = "version", []byte(`{"cdiVersion":"0.0.1","kind":"vendor.com/gpu","devices":[{"name":"x","containerEdits":{"env":["A=b"]}}]}`)
			case "dangling":
				nf.Kind = "dangling"
			case "unreadable":
				nf.Kind = "unreadable"
				perm = true
			case "vanish":
				// on disk valid until the scan has listed it; gone for the model
				hookTarget, hookAction = p.path(old), "vanish"
				p.Files = append(p.Files[:idx:idx], p.Files[idx+1:]...)
				return
			case "replace-invalid":
				hookTarget, hookAction = p.path(old), "replace"
				nf.Kind = "syntax" // what will be read
				p.Files[idx] = &nf
				return
			}
			p.Files[idx] = &nf
		}
	}
	apply(f)
	if second != nil {
		apply(*second)
	}
	// materialise (for hook scenarios the disk still holds the valid content)
	disk := clonePop(p)
	if hookAction != "" {
		disk.Files = append([]*PFile{}, p.Files...)
		old := base.Files[f.target]
		if hookAction == "vanish" {
			disk.Files = append(disk.Files, old)
		} else {
			for i, x := range disk.Files {
				if x.Phys == old.Phys && x.Name == old.Name {
					disk.Files[i] = old
				}
			}
		}
	}
	// a Spec object for the path of the file about to fail, obtained while the file
	// was still good (a caller may well hold one): the per-Spec view of the error
	// report is asked with it later
	var held *cdi.Spec
	heldPath := ""
	switch f.kind {
	case "syntax", "semantic", "empty", "version":
		if old := base.Files[f.target]; second == nil && old.specNamed() && !strings.Contains(old.Name, "/") {
			heldPath = p.path(old)
			if os.MkdirAll(filepath.Dir(heldPath), 0o755) == nil && os.WriteFile(heldPath, old.Content, 0o644) == nil {
				held, _ = cdi.ReadSpec(heldPath, 0)
			}
		}
	}
	disk.Write()
	res := p.Resolve()
	for path := range res.ErrPaths {
		mustErr[path] = true
	}
	// files inside a directory that cannot be scanned need no entry (already excluded by Resolve)
	conflicts := len(res.Conflicts) > 0
	refreshMustFail := len(mustErr) > 0
	refreshMustSucceed := len(mustErr) == 0 && !conflicts && !anyDirFault
	if f.kind == "linkdir-spec" || (second != nil && second.kind == "linkdir-spec") {
		// whether a Spec-named link to a directory counts as a Spec file in error is not pinned down
		refreshMustSucceed = false
	}
	pos := func(ft c13Fault) string {
		ph := ft.target
		if ft.kind != "missing" && ft.kind != "isfile" && ft.kind != "enotdir" && ft.kind != "noread" && ft.kind != "nosearch" {
			ph = base.Files[ft.target].Phys
		}
		for i, x := range base.ConfPhys {
			if x == ph {
				switch {
				case i == 0:
					return "first"
				case i == len(base.ConfPhys)-1:
					return "last"
				default:
					return "middle"
				}
			}
		}
		return "?"
	}
	sk := ""
	if second != nil {
		sk = second.kind
	}
	mode := "manual"
	if auto {
		mode = "auto"
	}
	if perm {
		mode = "child-uid65534"
	}
	c.Distinct(fmt.Sprintf("%s|%s|%s|%s", f.kind, pos(f), sk, mode))
	c.Count("fault:"+f.kind, 1)
	if sk != "" {
		c.Count("two_faults", 1)
	}
	if f.kind == "missing" || f.kind == "isfile" || f.kind == "enotdir" || f.kind == "noread" || f.kind == "nosearch" {
		c.Count("dirfault_position:"+pos(f), 1)
	}
	wit := func(rep any, extra string) map[string]any {
		return map[string]any{"fault": f, "second_fault": second, "mode": mode, "population": disk.Describe(), "configured_dirs": p.Conf, "report": rep, "phase": extra}
	}
	tags := map[string]string{"fault": f.kind, "mode": mode}
	report := func(phase string, rep Report, res *Resolved, mustErr map[string]bool, fail, succeed bool) bool {
		bad := compareReport(rep, res, mustErr, fail, succeed)
		if len(bad) > 0 {
			cls := "isolation"
			if strings.HasPrefix(bad[0], "panic") {
				cls = "panic"
			} else if strings.Contains(bad[0], "GetErrors") {
				cls = "not-reported"
			} else if strings.Contains(bad[0], "Refresh()") {
				cls = "refresh-result"
			}
			tags["phase"] = phase
			(&Case{Ctx: c, Name: name}).Violation(cls, tags, fmt.Sprintf("fault %s at %s (%s), %s: %s", f.kind, pos(f), mode, phase, bad[0]), map[string]any{"discrepancies": bad, "w": wit(rep, phase)})
			return false
		}
		return true
	}
	// the repaired population: everything as in the base
	// how the cause of a file fault goes away: the file is rewritten with good
	// content, or it leaves the directory (renamed to a non-Spec name, moved out,
	// removed) - then the repaired population is the base without that file
	repairStyle := "rewrite"
	switch f.kind {
	case "syntax", "semantic", "empty", "version", "dangling":
		if second == nil {
			repairStyle = []string{"rewrite", "rename-away", "move-out", "remove"}[caseSeed(c.Seed, "C13-repair", name)%4]
		}
	}
	c.Count("repair_style:"+repairStyle, 1)
	repair := func() *Pop {
		// undo chmods, remove stray files standing in for directories
		for i, d := range p.Phys {
			os.Chmod(d, 0o755)
			os.Remove(filepath.Join(d, "0-link"))
			os.Remove(filepath.Join(d, "0-link.json"))
			if p.DirFault[i] == "enotdir" {
				os.Remove(filepath.Dir(d))
			}
			if p.DirFault[i] == "isfile" {
				os.Remove(d)
			}
		}
		q := clonePop(base)
		// keep the configured list of the faulty scenario (enotdir changed a path):
		// repairing = making that path a proper directory with the original files
		q.Conf, q.Phys = append([]string{}, p.Conf...), append([]string{}, p.Phys...)
		for i := range q.Phys {
			must(os.MkdirAll(q.Phys[i], 0o755))
		}
		if repairStyle != "rewrite" {
			old := base.Files[f.target]
			var keep []*PFile
			for _, x := range q.Files {
				if x != old {
					keep = append(keep, x)
				}
			}
			q.Files = keep
		}
		for _, x := range q.Files {
			if repairStyle != "rewrite" {
				break // the only fault is that file: nothing else is touched, so that its
				// departure is the one and only change the watcher gets to see
			}
			q.writeFile(x)
		}
		if repairStyle != "rewrite" {
			bad := q.path(base.Files[f.target])
			switch repairStyle {
			case "rename-away":
				must(os.Rename(bad, bad+".bak"))
			case "move-out":
				must(os.Rename(bad, filepath.Join(q.Root, "moved-out-"+filepath.Base(bad))))
			default:
				must(os.Remove(bad))
			}
		}
		return q
	}
	switch {
	case perm:
		rc, err := startReportChild(c.Scratch, 65534, p.Conf)
		if err != nil {
			c.Inconclusive("child-start")
			return
		}
		defer rc.Close()
		rep, err := rc.Refresh()
		if err != nil {
			(&Case{Ctx: c, Name: name}).Violation("child-died", tags, fmt.Sprintf("the process refreshing the cache died: %v", err), wit(nil, "fault"))
			return
		}
		if !report("with fault", rep, res, mustErr, refreshMustFail, refreshMustSucceed) {
			return
		}
		q := repair()
		rep, err = rc.Refresh()
		if err != nil {
			(&Case{Ctx: c, Name: name}).Violation("child-died", tags, fmt.Sprintf("the process refreshing the cache died: %v", err), wit(nil, "repair"))
			return
		}
		qres := q.Resolve()
		if !report("after repair", rep, qres, nil, false, len(qres.Conflicts) == 0) {
			return
		}
		for _, k := range rep.ErrKeys {
			if !qres.Conflicts[k] {
				(&Case{Ctx: c, Name: name}).Violation("stale-error", tags, fmt.Sprintf("after the repair GetErrors() still has an entry for %s", k), wit(rep, "repair"))
				return
			}
		}
	default:
		var unhook func()
		var hookArmed atomic.Bool
		hookArmed.Store(!auto) // in auto mode the fault appears after the cache was created
		if hookAction != "" {
			done := false
			unhook = hookPrefix(hookTarget, func(point, arg string, n int) {
				if point != "scan.beforeRead" || arg != hookTarget || done || !hookArmed.Load() {
					return
				}
				done = true
				if hookAction == "vanish" {
					os.Remove(hookTarget)
				} else {
					os.WriteFile(hookTarget, []byte("{\"cdiVersion\": "), 0o644)
				}
				c.Count("hook_fired:"+hookAction, 1)
			})
			defer unhook()
		}
		var cache *cdi.Cache
		var ac *autoCache
		if auto {
			// auto-refresh mode: the cache is created on the good population, the
			// fault appears afterwards and the watcher has to pick it up
			base.Write()
			anchor := filepath.Join(p.Root, "anchor")
			must(os.MkdirAll(anchor, 0o755))
			// the anchor goes last in the list here so that priorities of the model stay as they are
			a, err := newAutoCache(filepath.Join(p.Root, "anchor"), anchor, append(append([]string{}, p.Conf...), anchor))
			if err != nil {
				c.Inconclusive("no-inotify")
				return
			}
			defer a.Close()
			cache, ac = a.C, a
			cache.ListDevices()
			hookArmed.Store(true)
			disk.Write()
			if !ac.Quiesce() {
				c.Inconclusive("quiesce-timeout")
				return
			}
			makeReport(cache, false) // first round of queries (re-adds watches of recreated directories)
			if !ac.Quiesce() {
				c.Inconclusive("quiesce-timeout")
				return
			}
		} else {
			if pv, st := guard(func() { cache, _ = cdi.NewCache(cdi.WithSpecDirs(p.Conf...), cdi.WithAutoRefresh(false)) }); pv != nil {
				(&Case{Ctx: c, Name: name}).Violation("panic", tags, fmt.Sprintf("NewCache panics: %v", pv), map[string]any{"w": wit(nil, "fault"), "stack": st})
				return
			}
		}
		// (in auto mode the error keys also hold directory watch errors; Refresh() reports
		// what the watcher's own rescans found)
		rep := makeReport(cache, true)
		if !report("with fault", rep, res, mustErr, refreshMustFail, refreshMustSucceed) {
			return
		}
		if held != nil {
			c.Count("per_spec_error_views_checked", 1)
			if es := cache.GetSpecErrors(held); (len(es) > 0) != (len(cache.GetErrors()[heldPath]) > 0) {
				(&Case{Ctx: c, Name: name}).Violation("missing-error-entry", tags, fmt.Sprintf("GetSpecErrors of a Spec object for %s (held since the file was valid) = %v, but GetErrors() has %v for that path", heldPath, es, cache.GetErrors()[heldPath]), wit(rep, "fault"))
				return
			}
		}
		if ac != nil && (strings.HasSuffix(name, "/auto-then-manual") || (!strings.HasSuffix(name, "/auto") && nameHash(name)%5 < 2)) {
			// the cache is switched to manual refresh while the fault is still there: from
			// here on it is a manual cache (what the watcher recorded belongs to the past)
			cache.Configure(cdi.WithAutoRefresh(false))
			ac, auto = nil, false
			tags["switched"] = "auto-to-manual-before-repair"
			c.Count("auto_caches_switched_to_manual_before_repair", 1)
		}
		if ac != nil && strings.HasSuffix(name, "/auto-reconfigured") {
			// the cache is told the same directories once more (and stays in auto-refresh
			// mode): the fault is still there, the repair comes afterwards
			o, reuse := withDirs(append(append([]string{}, p.Conf...), filepath.Join(p.Root, "anchor")))
			cache.Configure(o)
			reuse()
			c.Count("auto_caches_reconfigured_with_the_same_directories_before_repair", 1)
			makeReport(cache, false)
		}
		q := repair()
		quiesce := func() bool {
			if strings.HasSuffix(name, "/auto-reconfigured") {
				// (a cache that no longer hears of changes in its directories after being told
				// the same directories again is judged by the comparison below, provided a
				// cache created now does hear of them)
				dirs := append(append([]string{}, p.Conf...), filepath.Join(p.Root, "anchor"))
				return ac.QuiesceOrControl(filepath.Join(p.Root, "anchor"), dirs)
			}
			return ac.Quiesce()
		}
		if ac != nil && !quiesce() {
			c.Inconclusive("quiesce-timeout")
			return
		}
		if ac != nil {
			makeReport(cache, false)
			if !quiesce() {
				c.Inconclusive("quiesce-timeout")
				return
			}
		}
		rep = makeReport(cache, true)
		qres := q.Resolve()
		if !report("after repair", rep, qres, nil, false, len(qres.Conflicts) == 0) {
			return
		}
		for _, k := range rep.ErrKeys {
			isDirKey := false
			for _, d := range p.Conf {
				if filepath.Clean(d) == k {
					isDirKey = true
				}
			}
			if !qres.Conflicts[k] && !(auto && isDirKey) {
				(&Case{Ctx: c, Name: name}).Violation("stale-error", tags, fmt.Sprintf("after the repair and a refresh GetErrors() still has an entry for %s", k), wit(rep, "repair"))
				return
			}
		}
		if ac != nil && len(qres.Conflicts) == 0 {
			// the same cache switched to manual refresh: whatever the watcher had recorded
			// about directories belongs to the past, an explicit refresh now reports the
			// (fault-free) present
			cache.Configure(cdi.WithAutoRefresh(false))
			rep = makeReport(cache, true)
			c.Count("auto_caches_switched_to_manual_after_repair", 1)
			if !report("after repair, switched to manual refresh", rep, qres, nil, false, true) {
				return
			}
			if len(rep.ErrKeys) > 0 {
				(&Case{Ctx: c, Name: name}).Violation("stale-error", tags, fmt.Sprintf("after the repair, a switch to manual refresh and a refresh GetErrors() still has entries for %v", rep.ErrKeys), wit(rep, "repair+manual"))
				return
			}
		}
	}
	c.Count("repaired:"+f.kind, 1)
	_ = held
	c.Sample(4, map[string]any{"fault": f.kind, "position": pos(f), "second_fault": sk, "mode": mode, "configured_dirs": len(p.Conf), "files_required_in_error_report": len(mustErr)})
}

// c13Overlap: manual mode. Refresh R1 is held (scan.beforeRead) at a file that
// sorts after the bad file, i.e. after it has read the bad file; the bad file
// is repaired; Refresh R2 is started. Whatever the interleaving the library
// allows, once both have returned the error entry must be gone and the
// repaired device must resolve: the last refresh to begin saw the repair.
func c13Overlap(cs *Case) {
	c, r := cs.Ctx, cs.R
	root := filepath.Join(c.Scratch, sanitize(cs.Name))
	dir := filepath.Join(root, "d")
	other := filepath.Join(root, "other")
	must(os.MkdirAll(dir, 0o755))
	must(os.MkdirAll(other, 0o755))
	defer os.RemoveAll(root)
	spec := func(dev string) []byte {
		return []byte(fmt.Sprintf(`{"cdiVersion":"0.6.0","kind":"vendor.com/gpu","devices":[{"name":"%s","containerEdits":{"env":["D=%s"]}}]}`, dev, dev))
	}
	bad := filepath.Join(dir, "a-bad.json")
	gate := filepath.Join(dir, "z-gate.json")
	badContent := [][]byte{[]byte("{\"cdiVersion\": "), []byte(`{"cdiVersion":"0.6.0","kind":"vendor.com/gpu","devices":[]}`), nil}[r.Intn(3)]
	must(os.WriteFile(bad, badContent, 0o644))
	must(os.WriteFile(gate, spec("gate"), 0o644))
	must(os.WriteFile(filepath.Join(other, "o.json"), spec("other"), 0o644))
	dirs := []string{other, dir}
	if chance(r, 50) {
		dirs = []string{dir, other}
	}
	cache, _ := cdi.NewCache(cdi.WithSpecDirs(dirs...), cdi.WithAutoRefresh(false))
	if len(cache.GetErrors()[bad]) == 0 {
		cs.Violation("not-reported", nil, "the bad Spec file has no error entry", nil)
		return
	}
	held := make(chan struct{})
	release := make(chan struct{})
	var once sync.Once
	unhook := hookPrefix(gate, func(point, arg string, n int) {
		if point == "scan.beforeRead" && arg == gate {
			first := false
			once.Do(func() { first = true })
			if first {
				close(held)
				<-release
			}
		}
	})
	defer unhook()
	r1 := make(chan error, 1)
	go func() { r1 <- cache.Refresh() }()
	select {
	case <-held:
	case <-time.After(20 * time.Second):
		c.Inconclusive("hook-not-reached")
		close(release)
		<-r1
		return
	}
	// R1 has read the bad file and is parked; now the repair
	must(os.WriteFile(bad, spec("repaired"), 0o644))
	r2 := make(chan error, 1)
	go func() { r2 <- cache.Refresh() }()
	var e2 error
	r2First := false
	select {
	case e2 = <-r2:
		r2First = true // the library lets refreshes overlap
	case <-time.After(150 * time.Millisecond):
	}
	close(release)
	e1 := <-r1
	if !r2First {
		e2 = <-r2
	}
	_ = e1
	c.Count("overlapping_refresh_scenarios", 1)
	if r2First {
		c.Count("overlap_second_refresh_finished_first", 1)
	}
	c.Distinct(fmt.Sprintf("overlap|%d|%v|%v", len(badContent), dirs[0] == dir, r2First))
	errs := cache.GetErrors()
	dev := cache.GetDevice("vendor.com/gpu=repaired")
	if e2 != nil || len(errs) != 0 || dev == nil {
		cs.Violation("stale-error", map[string]string{"mode": "overlapping-refreshes"}, fmt.Sprintf("a refresh that began after the repair has returned (err=%v), yet GetErrors() = %v and the repaired device resolves = %v: an older, overlapping refresh overwrote its result", e2, errs, dev != nil), map[string]any{"second_refresh_finished_first": r2First})
	}
}
