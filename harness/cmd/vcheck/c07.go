package main

// C07 — qualified device name grammar is exact, total and round-trips.
// Monitor: every string of a bounded-exhaustive enumeration (plus seeded longer
// strings) is fed to the real parser entry points; the results are compared
// with the hand-written recognisers of model_grammar.go.

import (
	"fmt"
	"math/rand"
	"strings"

	"tags.cncf.io/container-device-interface/pkg/parser"
)

var c07Alphabet = []string{"a", "Z", "0", "_", "-", ".", ":", "/", "=", " ", "é", "\xff", "\x00"}

func init() { register("C07", checkC07) }

type c07Stats struct {
	n, qualified, reachParts, long int64
}

func c07One(cs *Case, s string, st *c07Stats) {
	st.n++
	mv, mc, mn, mok := mQualified(s)
	var (
		v, c, n    string
		err        error
		isq        bool
		dv, dc, dn string
		ev, ec, ed error
	)
	if pv, stack := guard(func() {
		v, c, n, err = parser.ParseQualifiedName(s)
		isq = parser.IsQualifiedName(s)
		dv, dc, dn = parser.ParseDevice(s)
		ev = parser.ValidateVendorName(s)
		ec = parser.ValidateClassName(s)
		ed = parser.ValidateDeviceName(s)
	}); pv != nil {
		cs.Violation("panic", map[string]string{"input": fmt.Sprintf("%q", s)}, fmt.Sprintf("parser panics on %q: %v", s, pv), map[string]any{"input": s, "bytes": []byte(s), "stack": stack})
		return
	}
	w := func(class, msg string) {
		cs.Violation(class, map[string]string{"input": fmt.Sprintf("%q", s)}, msg, map[string]any{"input": s, "bytes": []byte(s),
			"model": []any{mv, mc, mn, mok}, "got": []any{v, c, n, fmt.Sprint(err)}})
	}
	if (err == nil) != mok {
		w("acceptance", fmt.Sprintf("ParseQualifiedName(%q): err=%v, grammar says qualified=%v", s, err, mok))
		return
	}
	if isq != mok {
		w("isqualified", fmt.Sprintf("IsQualifiedName(%q)=%v, grammar says %v", s, isq, mok))
	}
	if mok {
		st.qualified++
		if v != mv || c != mc || n != mn {
			w("parts", fmt.Sprintf("ParseQualifiedName(%q) = (%q,%q,%q), expected (%q,%q,%q)", s, v, c, n, mv, mc, mn))
		}
		if v+"/"+c+"="+n != s {
			w("recompose", fmt.Sprintf("parts of %q do not recompose: %q", s, v+"/"+c+"="+n))
		}
		if dv != mv || dc != mc || dn != mn {
			w("parsedevice", fmt.Sprintf("ParseDevice(%q) = (%q,%q,%q), expected (%q,%q,%q)", s, dv, dc, dn, mv, mc, mn))
		}
		if q := parser.QualifiedName(mv, mc, mn); q != s {
			w("compose", fmt.Sprintf("QualifiedName(%q,%q,%q) = %q", mv, mc, mn, q))
		}
	} else {
		if v != "" || c != "" || n != s {
			w("failure-contract", fmt.Sprintf("ParseQualifiedName(%q) failed but returned (%q,%q,%q), expected (\"\",\"\",input)", s, v, c, n))
		}
		// ParseDevice must not lose information either way
		if !(dv == "" && dc == "" && dn == s) && dv+"/"+dc+"="+dn != s {
			w("parsedevice", fmt.Sprintf("ParseDevice(%q) = (%q,%q,%q) neither verbatim nor a decomposition", s, dv, dc, dn))
		}
	}
	if strings.IndexByte(s, '/') >= 0 && strings.IndexByte(s, '=') > strings.IndexByte(s, '/') {
		st.reachParts++
	}
	if (ev == nil) != mVendorClass(s) {
		w("vendor", fmt.Sprintf("ValidateVendorName(%q): err=%v, grammar says valid=%v", s, ev, mVendorClass(s)))
	}
	if (ec == nil) != mVendorClass(s) {
		w("class", fmt.Sprintf("ValidateClassName(%q): err=%v, grammar says valid=%v", s, ec, mVendorClass(s)))
	}
	if (ed == nil) != mDevName(s) {
		w("devname", fmt.Sprintf("ValidateDeviceName(%q): err=%v, grammar says valid=%v", s, ed, mDevName(s)))
	}
}

// c07Enum enumerates all strings of exactly `rest` more symbols after prefix.
func c07Enum(cs *Case, prefix string, rest int, st *c07Stats) {
	c07One(cs, prefix, st)
	if rest == 0 {
		return
	}
	for _, a := range c07Alphabet {
		c07Enum(cs, prefix+a, rest-1, st)
	}
}

func genValidPart(r *rand.Rand, dev bool, maxLen int) string {
	first := "abcxyzABCXYZ"
	mid := "abcxyzABCXYZ0189_-."
	last := "abcxyzABCXYZ0189"
	if dev {
		first = last
		mid += ":"
	}
	n := 1 + r.Intn(maxLen)
	b := make([]byte, n)
	for i := range b {
		switch {
		case i == 0:
			b[i] = first[r.Intn(len(first))]
		case i == n-1:
			b[i] = last[r.Intn(len(last))]
		default:
			b[i] = mid[r.Intn(len(mid))]
		}
	}
	return string(b)
}

func checkC07(c *Ctx) {
	c.Rule = "bounded-exhaustive: every string of length <= L over the 13-symbol alphabet {a Z 0 _ - . : / = space é \\xff \\x00} (L=5 quick, 6 thorough), every Unicode code point substituted at the first, a middle and the last position of each part of a skeleton name, every byte 0..255 substituted at every position of 3-part skeletons, plus seeded valid names (parts of up to 12 bytes, now and then up to 70000) with single mutations; non-trivial/distinct = distinct strings that contain '/' followed later by '=' (so that per-part validation, not the splitter, decides)"
	c.Assume("the grammar recognisers in model_grammar.go transcribe the property statement", "strings longer than the bound are only sampled")
	L := c.pick(5, 6)
	var total c07Stats
	add := func(st *c07Stats) {
		c.mu.Lock()
		total.n += st.n
		total.qualified += st.qualified
		total.reachParts += st.reachParts
		total.long += st.long
		c.mu.Unlock()
	}
	// exhaustive part: one case per 2-symbol prefix (plus the short strings)
	var names []string
	names = append(names, "enum:short")
	for i := range c07Alphabet {
		for j := range c07Alphabet {
			names = append(names, fmt.Sprintf("enum:%d.%d", i, j))
		}
	}
	c.RunNamed(names, 0, func(cs *Case) {
		var st c07Stats
		if cs.Name == "enum:short" {
			c07One(cs, "", &st)
			for _, a := range c07Alphabet {
				c07One(cs, a, &st)
			}
		} else {
			var i, j int
			fmt.Sscanf(cs.Name, "enum:%d.%d", &i, &j)
			c07Enum(cs, c07Alphabet[i]+c07Alphabet[j], L-2, &st)
		}
		add(&st)
	})
	// every byte at every position of skeletons
	skeletons := []string{"ab/cd=ef", "a/b=c", "v.com/c-1=d:0", "abc/def=0", "A_b/c.d=e-f"}
	c.RunCases("bytes", len(skeletons), 0, func(cs *Case) {
		var st c07Stats
		var k int
		fmt.Sscanf(cs.Name, "bytes:%d", &k)
		sk := skeletons[k]
		for pos := 0; pos <= len(sk); pos++ {
			for b := 0; b < 256; b++ {
				if pos < len(sk) {
					c07One(cs, sk[:pos]+string([]byte{byte(b)})+sk[pos+1:], &st) // substitute
				}
				c07One(cs, sk[:pos]+string([]byte{byte(b)})+sk[pos:], &st) // insert
			}
			if pos < len(sk) {
				c07One(cs, sk[:pos]+sk[pos+1:], &st) // delete
			}
		}
		add(&st)
	})
	// every Unicode code point (and, for surrogates and values beyond U+10FFFF, the
	// replacement character Go makes of them) at the first, a middle and the last
	// position of each of the three parts: letters and digits are the ASCII ones only,
	// whatever case folding or Unicode category a code point has
	runeSk := "abc/def=ghi"
	runePos := []int{0, 1, 2, 4, 5, 6, 8, 9, 10}
	const runeChunk = 0x8000
	var runeNames []string
	for lo := 0; lo <= 0x10FFFF+1; lo += runeChunk {
		runeNames = append(runeNames, fmt.Sprintf("runes:%d", lo))
	}
	c.RunNamed(runeNames, 0, func(cs *Case) {
		var st c07Stats
		var lo int
		fmt.Sscanf(cs.Name, "runes:%d", &lo)
		for cp := lo; cp < lo+runeChunk && cp <= 0x10FFFF+1; cp++ {
			if cp < 0x80 {
				continue // single bytes are covered by the byte sweep
			}
			rs := string(rune(cp))
			for _, pos := range runePos {
				if c.Quick() && pos%4 != 1 && cp >= 0x3000 {
					continue // quick tier: first/last positions only below U+3000
				}
				c07One(cs, runeSk[:pos]+rs+runeSk[pos+1:], &st)
			}
			c07One(cs, "a"+rs+"b/c"+rs+"d=e"+rs+"f", &st)
		}
		c.Count("code_points_swept", min(runeChunk, 0x10FFFF+2-lo))
		add(&st)
	})
	// seeded longer names: valid parts, then single mutations and separator games
	c.RunCases("gen", c.pick(200, 2000), 0, func(cs *Case) {
		var st c07Stats
		r := cs.R
		for k := 0; k < 1000; k++ {
			ml := 12
			if chance(r, 4) {
				// long names: no length at which a part, or the input handed back on failure, may be cut
				ml = []int{70, 300, 1100, 70000}[r.Intn(4)]
				st.long++
			}
			v, cl, n := genValidPart(r, false, ml), genValidPart(r, false, ml), genValidPart(r, true, ml)
			s := v + "/" + cl + "=" + n
			c07One(cs, s, &st)
			// composing valid parts and parsing returns the parts
			var pv2, pc2, pn2 string
			var err error
			if p, _ := guard(func() { pv2, pc2, pn2, err = parser.ParseQualifiedName(parser.QualifiedName(v, cl, n)) }); p != nil || err != nil || pv2 != v || pc2 != cl || pn2 != n {
				cs.Violation("roundtrip", map[string]string{"input": s}, fmt.Sprintf("compose/parse of (%q,%q,%q) gave (%q,%q,%q,%v) panic=%v", v, cl, n, pv2, pc2, pn2, err, p), s)
			}
			muts := "_-.:/= \x00\xffé9Az"
			pos := r.Intn(len(s) + 1)
			m := string(muts[r.Intn(len(muts))])
			switch r.Intn(4) {
			case 0:
				c07One(cs, s[:pos]+m+s[pos:], &st)
			case 1:
				if pos < len(s) {
					c07One(cs, s[:pos]+m+s[pos+1:], &st)
				}
			case 2:
				if pos < len(s) {
					c07One(cs, s[:pos]+s[pos+1:], &st)
				}
			case 3:
				c07One(cs, strings.Replace(s, "/", pickStr(r, "//", "=", "", "/=", " /"), 1), &st)
				c07One(cs, strings.Replace(s, "=", pickStr(r, "==", "/", "", "=/", "= "), 1), &st)
			}
		}
		add(&st)
	})
	c.mu.Lock()
	c.evaluations = total.n
	c.counters["strings_checked"] = total.n
	c.counters["strings_qualified"] = total.qualified
	c.counters["names_longer_than_64_bytes_with_mutations"] = total.long
	c.counters["strings_reaching_part_validation"] = total.reachParts
	// all enumerated strings are distinct by construction; the seeded ones may repeat, so count conservatively
	c.mu.Unlock()
	c.Extra("exhaustive", true)
	c.Extra("exhaustive_bound", fmt.Sprintf("all strings of length <= %d over %d symbols", L, len(c07Alphabet)))
	c.Extra("distinct_note", "distinct_nontrivial counts the enumerated strings (distinct by construction) that reach per-part validation")
	c.setDistinct(int(total.reachParts))
	c.Sample(5, map[string]any{"input": "a/b=c", "expected": "qualified (single-letter vendor and class)"})
	c.Sample(5, map[string]any{"input": "a/b=c:", "expected": "rejected: name must end with a letter or digit; failure returns (\"\",\"\",input)"})
	c.Sample(5, map[string]any{"input": "é/a=0", "expected": "rejected: non-ASCII byte in vendor"})
	c.Floor("strings_qualified", 50)
	c.Floor("names_longer_than_64_bytes_with_mutations", 1000)
	c.Floor("code_points_swept", 1000000)
}
