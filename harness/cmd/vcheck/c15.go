package main

// C15 — CDI annotations written by the helper parse back to the same request.

import (
	"fmt"
	"math/rand"
	"reflect"
	"strings"

	"tags.cncf.io/container-device-interface/pkg/cdi"
)

func init() { register("C15", checkC15) }

const cdiPrefix = "cdi.k8s.io/"

var c15Classes = []struct{ name, chars string }{
	{"lower", "abz"}, {"upper", "AQZ"}, {"digit", "059"}, {"underscore", "_"}, {"dash", "-"}, {"dot", "."},
	{"slash", "/"}, {"otherascii", " =:,@~"}, {"control", "\x00\n\x7f"}, {"nonascii", "é"}, {"invalidutf8", "\xff\xc3"},
}

func c15Str(r *rand.Rand, n int, first, mid, last int) string {
	if n <= 0 {
		return ""
	}
	pick := func(ci int) string {
		cs := c15Classes[ci].chars
		if c15Classes[ci].name == "nonascii" {
			return "é"
		}
		return string(cs[r.Intn(len(cs))])
	}
	var sb strings.Builder
	for i := 0; i < n; i++ {
		switch {
		case i == 0:
			sb.WriteString(pick(first))
		case i == n-1:
			sb.WriteString(pick(last))
		default:
			if chance(r, 15) {
				sb.WriteString(pick(mid))
			} else {
				sb.WriteString(pick(r.Intn(3)))
			}
		}
	}
	return sb.String()
}

func c15Devices(r *rand.Rand) (devs []string, allQualified bool, shape string) {
	n := 1 + r.Intn(4)
	allQualified = true
	bad := -1
	if chance(r, 35) {
		bad = r.Intn(n)
	}
	shape = fmt.Sprintf("n%d", n)
	for i := 0; i < n; i++ {
		d := genValidPart(r, false, 6) + "/" + genValidPart(r, false, 6) + "=" + genValidPart(r, true, 6)
		if chance(r, 15) {
			d = "a/b=" + genValidPart(r, true, 3) // one-letter vendor and class
			shape += "+oneletter"
		}
		if i == bad {
			kind := r.Intn(7)
			d = []string{"", "nodev", "vendor.com/class", "vendor.com/class=", "a/b=c,d/e=f", "vendor.com/cl ass=x", "/class=x"}[kind]
			shape += fmt.Sprintf("+bad%d@%d", kind, i)
		}
		if _, _, _, ok := mQualified(d); !ok {
			allQualified = false
		}
		devs = append(devs, d)
	}
	return
}

func copyMap(m map[string]string) map[string]string {
	if m == nil {
		return nil
	}
	o := make(map[string]string, len(m))
	for k, v := range m {
		o[k] = v
	}
	return o
}

func checkC15(c *Ctx) {
	c.Rule = "seeded (plugin, deviceID, initial map, device list) tuples: composed key names of every length 1..66 with every character class (lower, upper, digit, _, -, ., /, other ASCII, control, non-ASCII, invalid UTF-8) in first/middle/last position of plugin and id; initial maps nil/empty/foreign keys/CDI keys including the key about to be generated (with empty and non-empty value); device lists valid / one invalid element at each position / one-letter vendor+class; plus every Unicode code point at the first, a middle and the last position of plugin name and device id; distinct_nontrivial = distinct (name length, first/mid/last class of plugin, of id, map shape, device-list shape) signatures"
	c.Assume("M-GRAMMAR's Kubernetes qualified-name recogniser transcribes the k8s rule (prefix: DNS-1123 subdomain <=253, name part 1..63)", "UpdateAnnotations with an empty device list is outside the property's quantifier: observed, not judged", "whether a legal request must succeed is not stated by the property: failures of legal requests are counted (unexpected_failures), not judged")
	n := c.pick(40000, 3000000)
	per := 500
	c.RunCases("gen", n/per, 0, func(cs *Case) {
		r := cs.R
		c.AddEvaluations(per - 1)
		for it := 0; it < per; it++ {
			total := 1 + r.Intn(66)
			if chance(r, 35) {
				total = 59 + r.Intn(8) // around the limit
			}
			pl := 1
			if total > 2 {
				pl = 1 + r.Intn(total-2)
			}
			idl := total - pl - 1
			nc := len(c15Classes)
			fc, mc, lc := r.Intn(nc), r.Intn(nc), r.Intn(nc)
			if chance(r, 60) {
				fc, mc, lc = r.Intn(3), r.Intn(6), r.Intn(3) // mostly legal
			}
			plugin := c15Str(r, pl, fc, mc, r.Intn(3))
			ifc, ilc := r.Intn(3), lc
			id := c15Str(r, idl, ifc, mc, ilc)
			if chance(r, 3) {
				plugin = ""
			}
			if chance(r, 3) {
				id = ""
			}
			name := plugin + "_" + strings.ReplaceAll(id, "/", "_")
			key := cdiPrefix + name
			keyLegal := plugin != "" && id != "" && mK8sQualifiedName(key)
			devs, allQ, dshape := c15Devices(r)
			// initial map
			var init map[string]string
			mshape := "nil"
			switch r.Intn(7) {
			case 1:
				init, mshape = map[string]string{}, "empty"
			case 2:
				init, mshape = map[string]string{"foo": "bar", "example.com/x": "vendor.com/class=dev"}, "foreign"
			case 3:
				init, mshape = map[string]string{cdiPrefix + "other_1": "vendor.com/class=dev0,vendor.com/class=dev1", "foo": "bar"}, "cdi-other"
			case 4:
				init, mshape = map[string]string{key: "vendor.com/class=old"}, "collision"
			case 5:
				init, mshape = map[string]string{key: "", "foo": "x"}, "collision-empty-value"
			case 6:
				init, mshape = map[string]string{cdiPrefix + "bad": "not-qualified"}, "cdi-invalid-value"
			}
			_, used := init[key]
			before := copyMap(init)
			c.Distinct(fmt.Sprintf("%d|%d%d%d|%d%d|%s|%s", len(name), fc, mc, lc, ifc, ilc, mshape, dshape))
			if len(name) >= 61 && len(name) <= 66 {
				c.Count(fmt.Sprintf("name_len_%d", len(name)), 1)
			}
			wit := func() map[string]any {
				return map[string]any{"plugin": plugin, "plugin_bytes": []byte(plugin), "deviceID": id, "deviceID_bytes": []byte(id), "devices": devs, "initial_map": before, "key": key, "model_key_legal": keyLegal}
			}
			var out map[string]string
			var err error
			if pv, st := guard(func() { out, err = cdi.UpdateAnnotations(init, plugin, id, devs) }); pv != nil {
				cs.Violation("panic", nil, fmt.Sprintf("UpdateAnnotations panics: %v", pv), map[string]any{"w": wit(), "stack": st})
				continue
			}
			if err != nil {
				c.Count("update_failed", 1)
				// the map must be exactly as it was, and be the same map
				if !reflect.DeepEqual(init, before) || !reflect.DeepEqual(out, before) || (before == nil) != (out == nil) {
					cs.Violation("failed-but-modified", map[string]string{"map": mshape}, fmt.Sprintf("UpdateAnnotations failed (%v) but the map changed: before %v, after %v, returned %v", err, before, init, out), wit())
				}
				if keyLegal && allQ && !used {
					c.Count("unexpected_failures", 1)
				}
			} else {
				c.Count("update_succeeded", 1)
				if !used && out != nil {
					// the same request once more: the key is used now, whatever the value
					snap := map[string]string{}
					for k, v := range out {
						snap[k] = v
					}
					again, err2 := cdi.UpdateAnnotations(out, plugin, id, devs)
					c.Count("requests_repeated_on_the_updated_map", 1)
					if err2 == nil || !reflect.DeepEqual(out, snap) || !reflect.DeepEqual(again, snap) {
						cs.Violation("overwrite", map[string]string{"map": mshape, "what": "same-request-again"}, fmt.Sprintf("the same UpdateAnnotations request once more, on the map that now has key %q: err=%v, map %v (was %v)", key, err2, out, snap), wit())
						continue
					}
				}
				switch {
				case used:
					cs.Violation("overwrite", map[string]string{"map": mshape}, fmt.Sprintf("UpdateAnnotations succeeded although key %q was already used (old value %q, new %q)", key, before[key], out[key]), wit())
					continue
				case !keyLegal:
					cs.Violation("illegal-key", nil, fmt.Sprintf("UpdateAnnotations succeeded with plugin %q id %q: resulting key is not a legal Kubernetes annotation key", plugin, id), map[string]any{"w": wit(), "result": out})
					continue
				case !allQ:
					cs.Violation("unqualified-accepted", nil, fmt.Sprintf("UpdateAnnotations accepted a device list with an unqualified name: %q", devs), map[string]any{"w": wit(), "result": out})
					continue
				}
				// exactly one new key, nothing else touched
				var added []string
				for k := range out {
					if _, ok := before[k]; !ok {
						added = append(added, k)
					}
				}
				ok := len(added) == 1 && len(out) == len(before)+1
				for k, v := range before {
					if out[k] != v {
						ok = false
					}
				}
				if !ok {
					cs.Violation("not-exactly-one-key", nil, fmt.Sprintf("UpdateAnnotations: before %v after %v", before, out), map[string]any{"w": wit(), "result": out})
					continue
				}
				k := added[0]
				if !strings.HasPrefix(k, cdiPrefix) || !mK8sQualifiedName(k) || k != key {
					cs.Violation("illegal-key", nil, fmt.Sprintf("added key %q (expected %q) is not a legal annotation key under the CDI prefix", k, key), map[string]any{"w": wit(), "result": out})
					continue
				}
				// parses back to exactly the devices, in order
				var pk, pd []string
				var perr error
				if pv, st := guard(func() { pk, pd, perr = cdi.ParseAnnotations(map[string]string{k: out[k], "foreign": "x"}) }); pv != nil {
					cs.Violation("panic", nil, fmt.Sprintf("ParseAnnotations panics: %v", pv), map[string]any{"w": wit(), "stack": st})
					continue
				}
				if perr != nil || len(pk) != 1 || pk[0] != k || !reflect.DeepEqual(pd, devs) {
					cs.Violation("parse-back", nil, fmt.Sprintf("value %q parses back to keys %v devices %v err %v, requested %v", out[k], pk, pd, perr, devs), map[string]any{"w": wit(), "result": out})
					continue
				}
				c.Count("roundtrips", 1)
			}
			// AnnotationKey / AnnotationValue directly
			var ak string
			var akErr error
			if pv, st := guard(func() { ak, akErr = cdi.AnnotationKey(plugin, id) }); pv != nil {
				cs.Violation("panic", nil, fmt.Sprintf("AnnotationKey panics: %v", pv), map[string]any{"w": wit(), "stack": st})
				continue
			}
			if akErr == nil && (!keyLegal || ak != key) {
				cs.Violation("illegal-key", nil, fmt.Sprintf("AnnotationKey(%q,%q) = %q, which is not a legal annotation key under the CDI prefix (expected legal=%v)", plugin, id, ak, keyLegal), wit())
			}
			var av string
			var avErr error
			if pv, st := guard(func() { av, avErr = cdi.AnnotationValue(devs) }); pv != nil {
				cs.Violation("panic", nil, fmt.Sprintf("AnnotationValue panics: %v", pv), map[string]any{"w": wit(), "stack": st})
				continue
			}
			if avErr == nil && (!allQ || av != strings.Join(devs, ",")) {
				cs.Violation("unqualified-accepted", nil, fmt.Sprintf("AnnotationValue(%q) = %q err=nil, all qualified=%v", devs, av, allQ), wit())
			}
			// ParseAnnotations on a mixed map
			c15Parse(cs, r)
		}
	})
	// every Unicode code point in the first, a middle and the last position of the
	// plugin name and of the device id: a key with a non-ASCII character is never a
	// legal Kubernetes annotation key, whatever the character folds or maps to
	const chunk = 0x8000
	var names []string
	for lo := 0; lo <= 0x10FFFF+1; lo += chunk {
		names = append(names, fmt.Sprintf("runes:%d", lo))
	}
	c.RunNamed(names, 0, func(cs *Case) {
		var lo int
		fmt.Sscanf(cs.Name, "runes:%d", &lo)
		n := 0
		for cp := lo; cp < lo+chunk && cp <= 0x10FFFF+1; cp++ {
			rs := string(rune(cp))
			if cp < 0x80 {
				rs = string([]byte{byte(cp)}) // every ASCII byte, NUL included
			}
			for pos := 0; pos < 6; pos++ {
				if c.Quick() && pos%3 != 1 && cp >= 0x3000 {
					continue
				}
				plugin, id := "abc", "xyz"
				if pos < 3 {
					plugin = plugin[:pos] + rs + plugin[pos+1:]
				} else {
					id = id[:pos-3] + rs + id[pos-2:]
				}
				n++
				var key string
				var kerr, uerr error
				var out map[string]string
				if pv, st := guard(func() {
					key, kerr = cdi.AnnotationKey(plugin, id)
					out, uerr = cdi.UpdateAnnotations(nil, plugin, id, []string{"vendor.com/class=dev"})
				}); pv != nil {
					cs.Violation("panic", nil, fmt.Sprintf("AnnotationKey/UpdateAnnotations panic for plugin %q id %q: %v", plugin, id, pv), map[string]any{"stack": st})
					return
				}
				legal := cp < 0x80 && mK8sQualifiedName(cdiPrefix+plugin+"_"+strings.ReplaceAll(id, "/", "_"))
				if legal {
					continue // (whether a legal request must succeed is not the property's business)
				}
				if kerr == nil || uerr == nil {
					cs.Violation("illegal-key", map[string]string{"sweep": "code-points"}, fmt.Sprintf("plugin %q, device id %q (U+%04X at position %d): AnnotationKey = %q err=%v, UpdateAnnotations = %v err=%v; the resulting key is not a legal Kubernetes annotation key", plugin, id, cp, pos, key, kerr, out, uerr), map[string]any{"plugin": plugin, "deviceID": id, "code_point": cp})
					return
				}
			}
		}
		c.Count("code_points_swept", min(chunk, 0x10FFFF+2-lo))
		c.AddEvaluations(n)
	})
	c.Floor("code_points_swept", 1000000)
	c.Sample(3, map[string]any{"plugin": "vendor.com_gpu", "deviceID": "a/b", "devices": []string{"vendor.com/gpu=0", "a/b=c"}, "expected": "one key cdi.k8s.io/vendor.com_gpu_a_b whose value parses back to the two devices in order"})
	c.Sample(3, map[string]any{"plugin": "p", "deviceID": "x", "initial_map": map[string]string{"cdi.k8s.io/p_x": ""}, "expected": "error, map untouched (key already used, even with an empty value)"})
	for l := 61; l <= 66; l++ {
		c.Floor(fmt.Sprintf("name_len_%d", l), 10)
	}
	c.Floor("roundtrips", 500)
	c.Floor("update_failed", 500)
}

// c15Parse checks ParseAnnotations on a generated map with CDI and foreign keys.
func c15Parse(cs *Case, r *rand.Rand) {
	c := cs.Ctx
	m := map[string]string{}
	allOK := true
	nk := r.Intn(4)
	for i := 0; i < nk; i++ {
		devs, ok, _ := c15Devices(r)
		if chance(r, 70) {
			// keep most values valid
			for j := range devs {
				if _, _, _, q := mQualified(devs[j]); !q {
					devs[j] = "vendor.com/class=dev" + fmt.Sprint(j)
				}
			}
			ok = true
		}
		_ = ok
		val := strings.Join(devs, ",")
		if chance(r, 15) {
			// white space at the ends of the value or next to a comma belongs to the device
			// names it touches (a value is a comma-separated list, nothing else)
			ws := pickStr(r, " ", "\n", "\t", "\r\n", "\u00a0", "\u2028", "\v", "  ")
			switch r.Intn(4) {
			case 0:
				val = ws + val
			case 1:
				val = val + ws
			case 2:
				val = ws + val + ws
			default:
				val = strings.Replace(val, ",", pickStr(r, ","+ws, ws+","), 1) + pickStr(r, "", ws)
			}
			c.Count("parse_values_with_white_space_around_elements", 1)
		}
		// what counts is what the value splits into (an element with an
		// embedded comma becomes two devices)
		for _, d := range strings.Split(val, ",") {
			if _, _, _, q := mQualified(d); !q {
				allOK = false
			}
		}
		// every key that starts with the prefix is a CDI key, whatever follows
		suffix := []string{"k%d", "vendor.com_gpu_%d", "vendor.com/class%d", "a/b/%d", "%d/", "/%d", "K %d", "%d", strings.Repeat("n", 70) + "%d"}[r.Intn(9)]
		if i == 0 && chance(r, 10) {
			suffix = "%.0d" // the bare prefix
		}
		m[cdiPrefix+fmt.Sprintf(suffix, i)] = val
	}
	if chance(r, 50) {
		// near misses of the prefix are foreign keys
		m["foreign.io/key"] = "not a device"
		m["cdi.k8s.io"] = "also/not=a,device" // no trailing slash: not a CDI key
		m[pickStr(r, "cdi.k8s.iox/y", "x/cdi.k8s.io/y", "CDI.K8S.IO/k", " cdi.k8s.io/k", "cdi.k8s.io.x/k", "cdi.k8s.i/o/k")] = "not-qualified"
	}
	var keys, devs []string
	var err error
	given := map[string]string{}
	for k, v := range m {
		given[k] = v
	}
	if pv, st := guard(func() { keys, devs, err = cdi.ParseAnnotations(m) }); pv != nil {
		cs.Violation("panic", nil, fmt.Sprintf("ParseAnnotations panics: %v", pv), map[string]any{"map": m, "stack": st})
		return
	}
	c.Count("parse_checked", 1)
	if !reflect.DeepEqual(m, given) {
		cs.Violation("parse", map[string]string{"what": "argument-modified"}, fmt.Sprintf("ParseAnnotations changed the map it was given: %v, was %v", m, given), nil)
		return
	}
	if !allOK {
		if err == nil || keys != nil || devs != nil {
			cs.Violation("parse-error-contract", nil, fmt.Sprintf("ParseAnnotations of a map with an unqualified device returned keys=%v devices=%v err=%v", keys, devs, err), map[string]any{"map": m})
		}
		return
	}
	if err != nil {
		cs.Violation("parse", nil, fmt.Sprintf("ParseAnnotations failed on valid CDI annotations: %v", err), map[string]any{"map": m})
		return
	}
	if len(keys) != nk {
		cs.Violation("parse", nil, fmt.Sprintf("ParseAnnotations returned keys %v for a map with %d CDI keys", keys, nk), map[string]any{"map": m})
		return
	}
	var want []string
	seen := map[string]bool{}
	for _, k := range keys {
		v, ok := m[k]
		if !ok || !strings.HasPrefix(k, cdiPrefix) || seen[k] {
			cs.Violation("parse", nil, fmt.Sprintf("ParseAnnotations returned key %q (not a CDI key of the map, or repeated)", k), map[string]any{"map": m, "keys": keys})
			return
		}
		seen[k] = true
		want = append(want, strings.Split(v, ",")...)
	}
	if !reflect.DeepEqual(devs, want) && !(len(devs) == 0 && len(want) == 0) {
		cs.Violation("parse", nil, fmt.Sprintf("ParseAnnotations devices %v, expected (in returned key order) %v", devs, want), map[string]any{"map": m, "keys": keys})
	}
}
