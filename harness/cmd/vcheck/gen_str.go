package main

// G-STR: hostile but valid UTF-8 strings.

import (
	"math/rand"
	"strings"
)

type strClass struct {
	name string
	vals []string
}

var gstrCatalogue = []strClass{
	{"yaml-bool-null", []string{"yes", "no", "Yes", "NO", "true", "false", "on", "off", "y", "n", "~", "null", "Null", "NULL"}},
	{"yaml-number-like", []string{"0123", "1_000", "0x1f", "0o17", "1e3", ".5", "+1", "-0", "1.0", ".inf", "-.inf", ".nan", "0b101", "190:20:30", "1,000", "12345678901234567890123"}},
	{"yaml-date-like", []string{"2001-12-14", "2001-12-14t21:59:43.10-05:00", "2001-12-14 21:59:43.10 -5", "12:30:45"}},
	{"yaml-indicators", []string{"<<", "&a", "*a", "!tag", "!!str x", "|", ">", "|-", ">+", "%YAML", "@at", "`tick", "- item", "-", "? key", "?", ": value", ":", "a: b", "a : b", "k: v: w", "{a: b}", "[a, b]", "{", "}", "[", "]", ",", "a, b", "---", "...", "--- doc", "# comment", "a #b", "a# b", "#"}},
	{"quotes", []string{"'", "\"", "''", "\"\"", "it's", "say \"hi\"", "'quoted'", "\"quoted\"", "\\", "\\n", "a\\", "\\\"", "'\"'"}},
	{"blanks", []string{" ", "  ", " a", "a ", " a ", "\t", "\ta", "a\t", "a  b", " \t "}},
	{"newlines", []string{"\n", "a\n", "\na", "a\nb", "a\n\nb", "a\n", "a\n\n", "\n\n", "a\r\nb", "\r\n", "\r", "a\rb", "a\n b", "a\n  b\n c", " a\nb", "  a\n b", "\ta\nb", "\n a", "a\n\tb", "a \nb", "a\n#b", "a\n- b", "a:\n  b", "a\n...\nb", "a\n---\nb", " \n", "\n ", "a\n "}},
	{"c0-controls", []string{"\x00", "a\x00b", "\x01", "\x07", "\x08", "\x0b", "\x0c", "\x1b", "\x1f", "a\x1bb"}},
	{"del-c1", []string{"\x7f", "a\x7fb", "\u0080", "\u0085", "a\u0085b", "\u0085a", "a\u0085", "\u009f", "\u0084\u0086"}},
	{"unicode-separators", []string{"\u2028", "\u2029", "a\u2028b", "a\u2029", "\u00a0", "\u00a0a", "a\u00a0", "\u200b", "\u3000"}},
	{"bom-nonchar", []string{"\ufeff", "\ufeffa", "a\ufeff", "\ufffe", "\uffff", "a\ufffeb", "\ufffd", "\U0001fffe", "\U0010ffff"}},
	{"non-bmp", []string{"𝄞", "a𝄞b", "😀", "\U00010000", "日本語", "é", "ß", "Ω"}},
	{"long", []string{strings.Repeat("a", 200), strings.Repeat("a b ", 100), strings.Repeat("x", 1025), strings.Repeat("é", 700), strings.Repeat("a\n", 50), strings.Repeat("long line ", 30) + "\n" + strings.Repeat("second ", 30)}},
}

var gstrFragments = []string{"a", "B", "0", " ", "  ", "\t", "\n", "\n", "\r\n", "\r", ":", ": ", "#", " #", "'", "\"", "\\", "- ", "-", "?", "|", ">", "&", "*", "!", "%", "@", "`", "{", "}", "[", "]", ",", "é", "𝄞", "\u0085", "\u2028", "\u2029", "\u00a0", "\x7f", "\u009b", "\x00", "\x1b", "\ufeff", "\ufffe", "\uffff", "yes", "~", "null", "1e3", "0x1f", "---", "..."}

// gstr returns a (class, string) pair: a catalogue entry or a seeded composition of fragments.
func gstr(r *rand.Rand) (string, string) {
	if chance(r, 55) {
		c := gstrCatalogue[r.Intn(len(gstrCatalogue))]
		return c.name, c.vals[r.Intn(len(c.vals))]
	}
	n := 1 + r.Intn(6)
	var sb strings.Builder
	for i := 0; i < n; i++ {
		sb.WriteString(gstrFragments[r.Intn(len(gstrFragments))])
	}
	return "composed", sb.String()
}

// strTraits describes a string for signatures of known findings.
func strTraits(s string) map[string]string {
	t := map[string]string{}
	b := func(v bool) string {
		if v {
			return "true"
		}
		return "false"
	}
	t["has_newline"] = b(strings.ContainsAny(s, "\n"))
	t["has_cr"] = b(strings.Contains(s, "\r"))
	// first character is a blank or a line break (LF, LS, PS)
	t["leading_blank_or_break"] = b(strings.HasPrefix(s, " ") || strings.HasPrefix(s, "\t") || strings.HasPrefix(s, "\n") || strings.HasPrefix(s, "\u2028") || strings.HasPrefix(s, "\u2029"))
	t["has_c0_control"] = b(strings.IndexFunc(s, func(r rune) bool { return r < 0x20 && r != '\n' && r != '\t' && r != '\r' }) >= 0)
	t["has_del_c1"] = b(strings.IndexFunc(s, func(r rune) bool { return r >= 0x7f && r <= 0x9f }) >= 0)
	t["has_nonchar_bom"] = b(strings.ContainsAny(s, "\ufeff\ufffe\uffff"))
	t["has_ls_ps_nel"] = b(strings.ContainsAny(s, "\u2028\u2029\u0085"))
	return t
}
