package main

// C14 — injection changes nothing but the OCI spec and is repeatable.
// Invariant monitor over before/after images of the cache content taken
// through the query API, across sequences of injections between which the
// host device nodes change.

import (
	"bytes"
	"encoding/json"
	"fmt"
	"os"
	"os/exec"
	"path/filepath"
	"reflect"
	"sort"
	"strings"

	oci "github.com/opencontainers/runtime-spec/specs-go"
	"golang.org/x/sys/unix"
	"tags.cncf.io/container-device-interface/pkg/cdi"
	specs "tags.cncf.io/container-device-interface/specs-go"
)

func init() {
	register("C14", checkC14)
	registerChild("c14fds", childC14Fds)
}

func openFds() int {
	es, err := os.ReadDir("/proc/self/fd")
	must(err)
	return len(es)
}

// childC14Fds: in a process of its own (nothing else opens or closes files), per
// kind of host node: the number of open file descriptors before and after 100
// injections of a device whose node is resolved from that host node. Injection
// changes nothing but the OCI spec: it leaves no descriptors behind.
func childC14Fds(args []string) int {
	root := args[0]
	hosts, err := makeHostNodes(filepath.Join(root, "hostdev"))
	if err != nil {
		fmt.Println(jsonStr(map[string]any{"error": "mknod: " + err.Error()}))
		return 0
	}
	dir := filepath.Join(root, "specs")
	must(os.MkdirAll(dir, 0o755))
	spec := &specs.Spec{Version: "0.6.0", Kind: "fds.org/dev"}
	for i, h := range hosts {
		spec.Devices = append(spec.Devices, specs.Device{Name: fmt.Sprintf("d%d", i), ContainerEdits: specs.ContainerEdits{
			DeviceNodes: []*specs.DeviceNode{{Path: fmt.Sprintf("/dev/in-container-%d", i), HostPath: h.Path}}}})
	}
	must(os.WriteFile(filepath.Join(dir, "fds.json"), specBytes(spec, "json"), 0o644))
	cache, _ := cdi.NewCache(cdi.WithSpecDirs(dir), cdi.WithAutoRefresh(false))
	inject := func(i int) bool {
		o := &oci.Spec{Version: "1.0.2", Process: &oci.Process{}, Linux: &oci.Linux{}}
		_, err := cache.InjectDevices(o, fmt.Sprintf("fds.org/dev=d%d", i))
		return err == nil
	}
	type row struct {
		Host       string `json:"host_node"`
		Kind       string `json:"kind"`
		Succeeds   bool   `json:"injection_succeeds"`
		Before     int    `json:"open_fds_before"`
		After      int    `json:"open_fds_after"`
		Injections int    `json:"injections"`
	}
	var rows []row
	for i := range hosts {
		inject(i) // (first use: whatever the runtime sets up once)
		inject(i)
	}
	for i, h := range hosts {
		rw := row{Host: filepath.Base(h.Path), Kind: h.Type, Injections: 100, Before: openFds()}
		for k := 0; k < rw.Injections; k++ {
			rw.Succeeds = inject(i)
		}
		rw.After = openFds()
		rows = append(rows, rw)
	}
	fmt.Println(jsonStr(map[string]any{"rows": rows}))
	return 0
}

// cacheImage is the JSON image of everything reachable through the query API.
func cacheImage(c *cdi.Cache) string {
	var parts []string
	for _, v := range c.ListVendors() {
		for _, s := range c.GetVendorSpecs(v) {
			b := jsonStr(s.Spec)
			parts = append(parts, fmt.Sprintf("spec %s@%d %s", s.GetPath(), s.GetPriority(), b))
		}
	}
	for _, q := range c.ListDevices() {
		parts = append(parts, fmt.Sprintf("dev %s %s", q, jsonStr(c.GetDevice(q).Device)))
	}
	sort.Strings(parts)
	return strings.Join(parts, "\n")
}

func mknodAs(path, typ string, major, minor int64) error {
	os.Remove(path)
	var mode uint32
	switch typ {
	case "c":
		mode = unix.S_IFCHR | 0o600
	case "b":
		mode = unix.S_IFBLK | 0o600
	default:
		mode = unix.S_IFIFO | 0o600
	}
	return unix.Mknod(path, mode, int(unix.Mkdev(uint32(major), uint32(minor))))
}

func checkC14(c *Ctx) {
	c.Rule = "seeded caches whose device nodes leave hostPath/type/major/minor unspecified in all combinations and point at per-case host nodes created with mknod; sequences of 2-6 operations (Cache.InjectDevices, Device.ApplyEdits, Spec.ApplyEdits), each executed twice on equal OCI specs, with host nodes replaced (c<->b<->p, other major/minor) between operations; oracles: (i) JSON image of all cached Specs and devices identical before/after every operation, (ii) equal requests on equal OCI specs give equal results, (iii) the result equals applying pristine copies of the generator's edits whose unspecified type/major/minor were filled in by the harness's own lstat of the current host nodes, (iv) every cached Spec can still be written back with WriteSpec and the file equals the one written before any injection; distinct_nontrivial = distinct (operation-kind sequence, positions of host changes) with >=2 operations touching a host-resolved node"
	c.Assume("the cache image is taken through GetVendorSpecs/GetDevice only", "oracle (iii) uses ContainerEdits.Apply on pristine generator data as reference (its semantics are C03's job)")
	c.RunCases("gen", c.pick(500, 20000), 0, func(cs *Case) {
		r := cs.R
		root := filepath.Join(c.Scratch, sanitize(cs.Name))
		hostDir := filepath.Join(root, "hostdev")
		hosts, err := makeHostNodes(hostDir)
		if err != nil {
			c.Inconclusive("mknod")
			return
		}
		defer os.RemoveAll(root)
		real := hosts[:5]
		p := genPop(r, root, PopOpt{Rich: true, Hosts: real})
		p.Write()
		cache, _ := cdi.NewCache(cdi.WithSpecDirs(p.Conf...), cdi.WithAutoRefresh(false))
		res := p.Resolve()
		devs := sortedDevs(res)
		if len(devs) == 0 {
			return
		}
		// which devices / specs depend on the host?
		needsHost := func(e *specs.ContainerEdits) bool {
			for _, n := range e.DeviceNodes {
				if !(n.Type != "" && (n.Major != 0 || n.Type == "p")) {
					return true
				}
			}
			return false
		}
		// (iv) reference write of every cached Spec before any injection
		type wr struct {
			spec *cdi.Spec
			data []byte
			name string
		}
		var writes []wr
		imagePre := cacheImage(cache)
		k := 0
		for _, v := range cache.ListVendors() {
			for _, s := range cache.GetVendorSpecs(v) {
				k++
				name := fmt.Sprintf("zz-c14-%d%s", k, filepath.Ext(s.GetPath()))
				if err := cache.WriteSpec(s.Spec, name); err != nil {
					cs.Violation("writeback-before", nil, fmt.Sprintf("WriteSpec of freshly loaded Spec %s fails: %v", s.GetPath(), err), map[string]any{"population": p.Describe()})
					return
				}
				dirs := cache.GetSpecDirectories()
				path := filepath.Join(dirs[len(dirs)-1], name)
				data, err := os.ReadFile(path)
				must(err)
				os.Remove(path)
				writes = append(writes, wr{s, data, name})
			}
		}
		image0 := cacheImage(cache)
		if image0 != imagePre {
			cs.Violation("cache-modified", map[string]string{"op": "writeback-before-any-injection"}, fmt.Sprintf("writing the freshly loaded Specs back with WriteSpec changed the cached Specs/devices:\n%s", firstDiff(imagePre, image0)), map[string]any{"population": p.Describe()})
			return
		}
		nops := 2 + r.Intn(5)
		var history []string
		var sig []string
		hostOps := 0
		for op := 0; op < nops; op++ {
			if op > 0 && chance(r, 50) {
				// replace a host node
				h := &real[r.Intn(len(real))]
				nt := pickStr(r, "c", "b", "p")
				// (device numbers over their whole range: 12 bits of major, 20 bits of minor)
				h.Type, h.Major, h.Minor = nt, []int64{int64(1 + r.Intn(200)), 255, 256, 511, 4095}[r.Intn(5)], []int64{int64(r.Intn(200)), 255, 256, 259, int64(256 + r.Intn(65000)), 1048575}[r.Intn(6)]
				if nt == "p" {
					h.Major, h.Minor = 0, 0
				}
				if err := mknodAs(h.Path, h.Type, h.Major, h.Minor); err != nil {
					c.Inconclusive("mknod")
					return
				}
				history = append(history, fmt.Sprintf("host %s := %s %d:%d", h.Path, h.Type, h.Major, h.Minor))
				sig = append(sig, "H")
				c.Count("host_changes", 1)
			}
			if op > 0 && chance(r, 25) {
				// the directories change behind the (manually refreshed) cache and a request
				// is refused: an injection, failing or not, is not a refresh
				for i, d := range p.Phys {
					if p.Exists[i] {
						os.WriteFile(filepath.Join(d, fmt.Sprintf("zz-behind-%d.json", op)), []byte(fmt.Sprintf(`{"cdiVersion":"0.6.0","kind":"behind.org/dev","devices":[{"name":"d%d","containerEdits":{"env":["BEHIND=1"]}}]}`, op)), 0o644)
						break
					}
				}
				bad := []string{devs[r.Intn(len(devs))], "unknown.org/dev=none", devs[r.Intn(len(devs))]}
				asked := append([]string{}, bad...)
				var rerr error
				if pv, st := guard(func() { _, rerr = cache.InjectDevices(genOCI(r), bad...) }); pv != nil {
					cs.Violation("panic", nil, fmt.Sprintf("InjectDevices%v panics: %v", bad, pv), map[string]any{"stack": st})
					return
				}
				if !reflect.DeepEqual(bad, asked) {
					cs.Violation("request-modified", map[string]string{"op": "refused-injection"}, fmt.Sprintf("a refused InjectDevices changed the caller's list of device names from %q to %q", asked, bad), map[string]any{"population": p.Describe(), "history": history})
					return
				}
				history = append(history, fmt.Sprintf("a Spec file appears behind the cache; refused InjectDevices%v", bad))
				c.Count("refused_injections_after_a_change_on_disk", 1)
				if img := cacheImage(cache); rerr == nil || img != image0 {
					cs.Violation("cache-modified", map[string]string{"op": "refused-injection"}, fmt.Sprintf("the cached Specs/devices changed after a refused InjectDevices%v (err=%v) on a manually refreshed cache whose directories had changed on disk:\n%s", bad, rerr, firstDiff(image0, img)), map[string]any{"population": p.Describe(), "history": history})
					return
				}
			}
			initial := genOCI(r)
			a, b, want := cloneOCI(initial), cloneOCI(initial), cloneOCI(initial)
			var run func(o *oci.Spec) error
			var expected specs.ContainerEdits
			var desc string
			touchesHost := false
			switch kind := r.Intn(4); {
			case kind <= 1: // InjectDevices
				n := 1 + r.Intn(3)
				if n > len(devs) {
					n = len(devs)
				}
				var req []string
				for _, i := range r.Perm(len(devs))[:n] {
					req = append(req, devs[i])
				}
				met := map[string]bool{}
				for _, q := range req {
					w := res.Devices[q]
					if !met[w.Path] {
						met[w.Path] = true
						appendEdits(&expected, &cloneSpec(w.File.Spec).ContainerEdits)
					}
					appendEdits(&expected, &cloneSpec(&specs.Spec{Devices: []specs.Device{w.Dev}}).Devices[0].ContainerEdits)
				}
				asked := append([]string{}, req...)
				run = func(o *oci.Spec) error {
					_, err := cache.InjectDevices(o, req...)
					if !reflect.DeepEqual(req, asked) {
						return fmt.Errorf("REQUEST-MODIFIED: the caller's list of device names changed from %q to %q", asked, req)
					}
					return err
				}
				desc = fmt.Sprintf("InjectDevices%v", req)
				sig = append(sig, "I")
			case kind == 2: // Device.ApplyEdits
				q := devs[r.Intn(len(devs))]
				w := res.Devices[q]
				appendEdits(&expected, &cloneSpec(&specs.Spec{Devices: []specs.Device{w.Dev}}).Devices[0].ContainerEdits)
				run = func(o *oci.Spec) error { return cache.GetDevice(q).ApplyEdits(o) }
				desc = "Device.ApplyEdits " + q
				sig = append(sig, "D")
			default: // Spec.ApplyEdits
				q := devs[r.Intn(len(devs))]
				w := res.Devices[q]
				appendEdits(&expected, &cloneSpec(w.File.Spec).ContainerEdits)
				run = func(o *oci.Spec) error { return cache.GetDevice(q).GetSpec().ApplyEdits(o) }
				desc = "Spec.ApplyEdits of " + w.Path
				sig = append(sig, "S")
			}
			touchesHost = needsHost(&expected)
			if touchesHost {
				hostOps++
				sig[len(sig)-1] += "h"
			}
			history = append(history, desc)
			wit := func() map[string]any {
				return map[string]any{"population": p.Describe(), "history": history, "host_nodes": real, "initial_oci": initial, "result_1": a, "result_2": b, "expected": want}
			}
			var e1, e2 error
			if pv, st := guard(func() { e1 = run(a); e2 = run(b) }); pv != nil {
				cs.Violation("panic", nil, fmt.Sprintf("%s panics: %v", desc, pv), map[string]any{"w": wit(), "stack": st})
				return
			}
			c.Count("operations", 1)
			for _, e := range []error{e1, e2} {
				if e != nil && strings.HasPrefix(e.Error(), "REQUEST-MODIFIED") {
					cs.Violation("request-modified", nil, desc+": "+e.Error(), wit())
					return
				}
			}
			pristine := cloneSpec(&specs.Spec{ContainerEdits: expected}).ContainerEdits
			// host-resolved attributes are computed by the harness's own lstat-based model
			// (mFill), so that a library that remembers host information cannot be its own oracle
			var fillErr error
			for _, n := range expected.DeviceNodes {
				typ, major, minor, err := mFill(n)
				if err != nil {
					fillErr = err
					break
				}
				n.Type, n.Major, n.Minor = typ, major, minor
			}
			refErr := fillErr
			if refErr == nil {
				refErr = (&cdi.ContainerEdits{ContainerEdits: &expected}).Apply(want)
			}
			if refErr != nil {
				// a node that states its type no longer matches the replaced host
				// node: the operation must fail too, and still leave the cache alone
				c.Count("operations_expected_to_fail", 1)
				if e1 == nil || e2 == nil {
					cs.Violation("stale-host-info", nil, fmt.Sprintf("%s succeeds although the pristine edits cannot be applied against the current host nodes (%v)", desc, refErr), wit())
					return
				}
				if img := cacheImage(cache); img != image0 {
					cs.Violation("cache-modified", map[string]string{"op": sig[len(sig)-1]}, fmt.Sprintf("the cached Specs/devices changed after (failing) %s:\n%s", desc, firstDiff(image0, img)), wit())
					return
				}
				continue
			}
			if e1 != nil || e2 != nil {
				cs.Violation("apply-failed", nil, fmt.Sprintf("%s fails: %v / %v", desc, e1, e2), wit())
				return
			}
			if img := cacheImage(cache); img != image0 {
				cs.Violation("cache-modified", map[string]string{"op": sig[len(sig)-1]}, fmt.Sprintf("the cached Specs/devices changed after %s:\n%s", desc, firstDiff(image0, img)), wit())
				return
			}
			if exactJSON(a) != exactJSON(b) {
				cs.Violation("not-repeatable", nil, fmt.Sprintf("%s on equal OCI specs gives different results", desc), wit())
				return
			}
			if exactJSON(a) != exactJSON(want) {
				cs.Violation("stale-host-info", nil, fmt.Sprintf("%s differs from applying the pristine edits against the current host nodes\n got  %s\n want %s", desc, exactJSON(a), exactJSON(want)), wit())
				return
			}
			// one OCI spec that starts out empty takes the Spec-level edits and every device of
			// that file, one application after the other, twice over: later applications set
			// variables that earlier ones have set (SHARED_MODE) - in the OCI spec, not in the cache
			if chance(r, 30) {
				q := devs[r.Intn(len(devs))]
				if d0 := cache.GetDevice(q); d0 != nil {
					chain := &oci.Spec{}
					sp := d0.GetSpec()
					n := 0
					for round := 0; round < 2; round++ {
						if sp.ApplyEdits(chain) == nil {
							n++
						}
						for _, dq := range devs {
							if d := cache.GetDevice(dq); d != nil && d.GetSpec() == sp {
								if d.ApplyEdits(chain) == nil {
									n++
								}
							}
						}
					}
					c.Count("chained_applications_into_one_oci_spec", n)
					if img := cacheImage(cache); img != image0 {
						cs.Violation("cache-modified", map[string]string{"op": "chained-applications"}, fmt.Sprintf("after applying the Spec-level edits of %s and each of its devices, twice over, to one initially empty OCI spec the cached Specs/devices have changed:\n%s", sp.GetPath(), firstDiff(image0, img)), wit())
						return
					}
				}
			}
			// the same request once more into the OCI spec it has already been applied to,
			// after a host node changed its minor only: what is in the OCI spec from last
			// time is no substitute for looking at the host node again
			if touchesHost && chance(r, 40) {
				for i := range real {
					h := &real[i]
					if h.Type == "p" {
						continue
					}
					h.Minor = []int64{(h.Minor + 1 + int64(r.Intn(50))) % 256, 256 + int64(r.Intn(3000)), 65536 + int64(r.Intn(100000)), 1048575, 255, 259}[r.Intn(6)]
					if err := mknodAs(h.Path, h.Type, h.Major, h.Minor); err != nil {
						c.Inconclusive("mknod")
						return
					}
				}
				again, wantAgain := a, cloneOCI(a)
				exp2 := cloneSpec(&specs.Spec{ContainerEdits: pristine}).ContainerEdits
				ok2 := true
				for _, n := range exp2.DeviceNodes {
					typ, major, minor, err := mFill(n)
					if err != nil {
						ok2 = false
						break
					}
					n.Type, n.Major, n.Minor = typ, major, minor
				}
				if ok2 && (&cdi.ContainerEdits{ContainerEdits: &exp2}).Apply(wantAgain) == nil {
					history = append(history, "every host node gets another minor; "+desc+" again into the same OCI spec")
					if err := run(again); err != nil || exactJSON(again) != exactJSON(wantAgain) {
						cs.Violation("stale-host-info", map[string]string{"op": "again-into-the-same-oci-spec"}, fmt.Sprintf("%s applied a second time to the same OCI spec after the host nodes changed their minor differs from applying the pristine edits now (err=%v)\n got  %s\n want %s", desc, err, exactJSON(again), exactJSON(wantAgain)), wit())
						return
					}
					// (and independently of Apply as a reference: every node of the edits is in
					// the OCI spec with the numbers the host node has NOW, rule included)
					lastOf := map[string]*specs.DeviceNode{}
					for _, n := range exp2.DeviceNodes {
						lastOf[n.Path] = n
					}
					for path, n := range lastOf {
						found, rule := false, n.Type != "b" && n.Type != "c"
						if again.Linux != nil {
							for _, d := range again.Linux.Devices {
								if d.Path == path && d.Type == n.Type && d.Major == n.Major && d.Minor == n.Minor {
									found = true
								}
							}
							if again.Linux.Resources != nil {
								for _, rl := range again.Linux.Resources.Devices {
									if rl.Allow && rl.Type == n.Type && rl.Major != nil && rl.Minor != nil && *rl.Major == n.Major && *rl.Minor == n.Minor {
										rule = true
									}
								}
							}
						}
						if !found || !rule {
							cs.Violation("stale-host-info", map[string]string{"op": "again-into-the-same-oci-spec"}, fmt.Sprintf("%s applied a second time to the same OCI spec: device node %s should now be %s %d:%d as on the host (node present: %v, allow rule present: %v)\n got %s", desc, path, n.Type, n.Major, n.Minor, found, rule, exactJSON(again.Linux)), wit())
							return
						}
					}
					c.Count("second_applications_into_the_same_oci_spec", 1)
					if img := cacheImage(cache); img != image0 {
						cs.Violation("cache-modified", map[string]string{"op": "again"}, fmt.Sprintf("the cached Specs/devices changed after a second %s:\n%s", desc, firstDiff(image0, img)), wit())
						return
					}
				}
			}
		}
		// (iv) write every cached Spec back
		for _, w := range writes {
			if err := cache.WriteSpec(w.spec.Spec, w.name); err != nil {
				cs.Violation("writeback", nil, fmt.Sprintf("WriteSpec of cached Spec %s fails after the injections: %v", w.spec.GetPath(), err), map[string]any{"population": p.Describe(), "history": history})
				return
			}
			dirs := cache.GetSpecDirectories()
			path := filepath.Join(dirs[len(dirs)-1], w.name)
			data, _ := os.ReadFile(path)
			os.Remove(path)
			if !bytes.Equal(data, w.data) {
				cs.Violation("writeback", nil, fmt.Sprintf("cached Spec %s written back differs from the file written before any injection:\n before %s\n after  %s", w.spec.GetPath(), w.data, data), map[string]any{"population": p.Describe(), "history": history})
				return
			}
			c.Count("writebacks", 1)
			if img := cacheImage(cache); img != image0 {
				cs.Violation("cache-modified", map[string]string{"op": "writeback"}, fmt.Sprintf("writing the cached Spec %s back with WriteSpec changed the cached Specs/devices:\n%s", w.spec.GetPath(), firstDiff(image0, img)), map[string]any{"population": p.Describe(), "history": history})
				return
			}
		}
		if hostOps >= 2 {
			c.Distinct(strings.Join(sig, ""))
			c.Count("sequences_2+_host_resolved_ops", 1)
		}
		c.Sample(3, map[string]any{"history": history, "host_nodes": real})
	})
	// descriptors left behind, per kind of host node (a process of its own)
	if c.replayCase == "" || strings.HasPrefix(c.replayCase, "fds") {
		exe, _ := os.Executable()
		c.RunCases("fds", c.pick(2, 6), 2, func(cs *Case) {
			root := filepath.Join(c.Scratch, sanitize(cs.Name))
			must(os.MkdirAll(root, 0o755))
			defer os.RemoveAll(root)
			outb, err := exec.Command(exe, "child-c14fds", root).Output()
			var out struct {
				Error string `json:"error"`
				Rows  []struct {
					Host       string `json:"host_node"`
					Kind       string `json:"kind"`
					Succeeds   bool   `json:"injection_succeeds"`
					Before     int    `json:"open_fds_before"`
					After      int    `json:"open_fds_after"`
					Injections int    `json:"injections"`
				} `json:"rows"`
			}
			if err != nil || json.Unmarshal(bytes.TrimSpace(outb), &out) != nil || out.Error != "" || len(out.Rows) == 0 {
				c.Inconclusive("fds-child")
				return
			}
			for _, rw := range out.Rows {
				c.Count("injections_under_descriptor_count", rw.Injections)
				c.Count("host_node_kinds_under_descriptor_count:"+rw.Host, 1)
				switch d := rw.After - rw.Before; {
				case d*2 >= rw.Injections:
					cs.Violation("descriptors-left-open", map[string]string{"host": rw.Host}, fmt.Sprintf("%d injections of a device whose node is resolved from host node %q (type %q, injection succeeds: %v) leave %d more file descriptors open (%d before, %d after)", rw.Injections, rw.Host, rw.Kind, rw.Succeeds, d, rw.Before, rw.After), map[string]any{"rows": out.Rows})
					return
				case d != 0:
					c.Count("descriptor_count_differences_below_threshold", 1)
				}
			}
			c.Sample(1, map[string]any{"descriptor_counts": out.Rows})
		})
		c.Floor("injections_under_descriptor_count", 1000)
	}
	c.Floor("sequences_2+_host_resolved_ops", 50)
	c.Floor("host_changes", 50)
	c.Floor("second_applications_into_the_same_oci_spec", 20)
	c.Floor("refused_injections_after_a_change_on_disk", 30)
	c.Floor("writebacks", 100)
}

func firstDiff(a, b string) string {
	al, bl := strings.Split(a, "\n"), strings.Split(b, "\n")
	for i := 0; i < len(al) && i < len(bl); i++ {
		if al[i] != bl[i] {
			return "before: " + al[i] + "\nafter:  " + bl[i]
		}
	}
	return fmt.Sprintf("image sizes differ: %d vs %d lines", len(al), len(bl))
}
