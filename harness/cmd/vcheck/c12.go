package main

// C12 — concurrent use of a cache is race-free and every result reflects one
// snapshot. Built with -race. Phase R: stress over all public operations, race
// reports de-duplicated, progress monitor. Phase S: atomic version switches of
// a Spec file under concurrent readers/refreshers; no-mixture, per-goroutine
// monotonicity and linearizability (porcupine) of {Publish, Refresh, Read}.

import (
	"fmt"
	"math/rand"
	"os"
	"os/exec"
	"path/filepath"
	"regexp"
	"runtime"
	"sort"
	"strings"
	"sync"
	"sync/atomic"
	"syscall"
	"time"

	"github.com/anishathalye/porcupine"
	oci "github.com/opencontainers/runtime-spec/specs-go"
	"tags.cncf.io/container-device-interface/pkg/cdi"
	"tags.cncf.io/container-device-interface/schema"
	specs "tags.cncf.io/container-device-interface/specs-go"
)

func init() {
	register("C12", checkC12)
	registerChild("c12first", childC12First)
}

// childC12First: the first uses of the package-level default cache (and of the
// builtin schema) in this process happen concurrently, under the race detector.
func childC12First(args []string) int {
	root := args[0]
	cdi.DefaultSpecDirs = []string{filepath.Join(root, "etc"), filepath.Join(root, "run")}
	const workers = 16
	ptrs := make([]*cdi.Cache, workers)
	start := make(chan struct{})
	var wg sync.WaitGroup
	for w := 0; w < workers; w++ {
		wg.Add(1)
		go func(w int) {
			defer wg.Done()
			<-start
			switch w % 4 {
			case 0:
				cdi.Configure(cdi.WithAutoRefresh(w%8 == 0))
			case 1:
				cdi.Refresh()
			case 2:
				cdi.InjectDevices(&oci.Spec{}, "vendor.com/gpu=dev0")
			default:
				cdi.GetErrors()
			}
			ptrs[w] = cdi.GetDefaultCache()
			_ = schema.BuiltinSchema().ValidateData([]byte("{}"))
		}(w)
	}
	close(start)
	wg.Wait()
	same := true
	for _, p := range ptrs {
		if p != ptrs[0] || p == nil {
			same = false
		}
	}
	devs := cdi.GetDefaultCache().ListDevices()
	fmt.Printf("SAME %v DEVICES %d\n", same, len(devs))
	releaseCache(cdi.GetDefaultCache())
	return 0
}

var epoch = time.Now()

func nowNS() int64 { return int64(time.Since(epoch)) }

type opRec struct {
	kind       string
	start, end int64
	worker     int
}

// ---------------------------------------------------------------- Phase R

var c12OpKinds = []string{"ListDevices", "GetDevice", "ListVendors", "ListClasses", "GetVendorSpecs", "GetSpecErrors", "GetErrors", "GetSpecDirectories", "GetSpecDirErrors", "InjectDevices", "Refresh", "Configure", "WriteSpec", "RemoveSpec", "default.Inject", "default.Refresh", "default.GetErrors", "default.Configure"}

func c12Stress(c *Ctx, name string, seed int64, auto bool, workers, opsPer int) (recs []opRec, stuck string) {
	root := filepath.Join(c.Scratch, sanitize(name))
	must(os.MkdirAll(root, 0o755))
	defer os.RemoveAll(root)
	hosts, err := makeHostNodes(filepath.Join(root, "hostdev"))
	if err != nil {
		c.HarnessError("mknod: %v", err)
		return
	}
	// d0..d2 exist; "missing" never does and "flicker" comes and goes (directory
	// errors are then written by every query of an auto-refresh cache)
	dirs := []string{filepath.Join(root, "d0"), filepath.Join(root, "d1"), filepath.Join(root, "d2")}
	extra := []string{filepath.Join(root, "missing"), filepath.Join(root, "flicker")}
	r0 := rand.New(rand.NewSource(seed))
	mkSpec := func(r *rand.Rand, tag string) *specs.Spec {
		s := genSpec(r, SpecGen{Vendor: "vendor.com", Class: pickStr(r, "gpu", "net"), Marker: tag, DevNames: []string{"dev0", "dev1", "dev2"}[:1+r.Intn(3)], HostNodes: hosts[:5]})
		return s
	}
	for i, d := range dirs {
		must(os.MkdirAll(d, 0o755))
		for k := 0; k < 2; k++ {
			must(os.WriteFile(filepath.Join(d, fmt.Sprintf("s%d.json", k)), specBytes(mkSpec(r0, fmt.Sprintf("i%d%d", i, k)), "json"), 0o644))
		}
	}
	dirs = append(dirs, extra...)
	cache, _ := cdi.NewCache(cdi.WithSpecDirs(dirs...), cdi.WithAutoRefresh(auto))
	defer func() {
		if stuck == "" { // a deadlocked cache cannot be reconfigured (it would hang us too)
			releaseCache(cache)
		}
	}()
	// watcher-driven refreshes are operations too (recorded through the hook)
	var wmu sync.Mutex
	var wrecs []opRec
	var wstart int64
	unhook := hookGlobal(func(point, arg string, n int) {
		if !strings.HasPrefix(arg, root) {
			return
		}
		switch point {
		case "refresh.begin":
			if watcherGoroutine() {
				wmu.Lock()
				wstart = nowNS()
				wmu.Unlock()
			}
		case "refresh.swap":
			runtime.Gosched() // let an unlocked reader, if any, see a half-swapped index
		case "refresh.end":
			wmu.Lock()
			if wstart != 0 {
				wrecs = append(wrecs, opRec{"watcher-refresh", wstart, nowNS(), -1})
				wstart = 0
			}
			wmu.Unlock()
		}
	})
	defer unhook()
	var stop atomic.Bool
	var progress = make([]atomic.Int64, workers)
	var wg sync.WaitGroup
	allRecs := make([][]opRec, workers)
	for w := 0; w < workers; w++ {
		wg.Add(1)
		go func(w int) {
			defer wg.Done()
			r := rand.New(rand.NewSource(seed*1000 + int64(w)))
			for i := 0; i < opsPer && !stop.Load(); i++ {
				kind := c12OpKinds[r.Intn(len(c12OpKinds))]
				if strings.HasPrefix(kind, "default.") && !chance(r, 35) {
					kind = "InjectDevices"
				}
				t0 := nowNS()
				func() {
					defer func() {
						if p := recover(); p != nil {
							c.violation(name, "panic", map[string]string{"op": kind}, fmt.Sprintf("%s panics under concurrent use: %v", kind, p), nil)
						}
					}()
					c12Op(cache, kind, r, dirs, w, mkSpec)
				}()
				allRecs[w] = append(allRecs[w], opRec{kind, t0, nowNS(), w})
				progress[w].Add(1)
			}
		}(w)
	}
	// external mutator
	var mg sync.WaitGroup
	mg.Add(1)
	go func() {
		defer mg.Done()
		r := rand.New(rand.NewSource(seed ^ 0x5eed))
		for i := 0; !stop.Load(); i++ {
			if i%7 == 0 {
				if i%14 == 0 {
					os.MkdirAll(extra[1], 0o755)
				} else {
					os.RemoveAll(extra[1])
				}
			}
			d := dirs[r.Intn(3)]
			p := filepath.Join(d, fmt.Sprintf("m%d.json", r.Intn(3)))
			if chance(r, 70) {
				tmp := p + ".tmp"
				os.WriteFile(tmp, specBytes(mkSpec(r, fmt.Sprintf("x%d", i)), "json"), 0o644)
				os.Rename(tmp, p)
			} else {
				os.Remove(p)
			}
			time.Sleep(time.Duration(200+r.Intn(800)) * time.Microsecond)
		}
	}()
	// progress monitor: zero progress of ALL workers across three samples 10 s apart
	done := make(chan struct{})
	go func() { wg.Wait(); close(done) }()
	var last int64 = -1
	idle := 0
loop:
	for {
		select {
		case <-done:
			break loop
		case <-time.After(10 * time.Second):
			var sum int64
			for i := range progress {
				sum += progress[i].Load()
			}
			if sum == last {
				idle++
			} else {
				idle = 0
			}
			last = sum
			if idle >= 3 {
				buf := make([]byte, 1<<22)
				buf = buf[:runtime.Stack(buf, true)]
				stuck = string(buf)
				stop.Store(true)
				break loop
			}
		}
	}
	stop.Store(true)
	if stuck == "" {
		mg.Wait()
	}
	for _, rs := range allRecs {
		recs = append(recs, rs...)
	}
	wmu.Lock()
	recs = append(recs, wrecs...)
	wmu.Unlock()
	return
}

func watcherGoroutine() bool {
	buf := make([]byte, 4096)
	buf = buf[:runtime.Stack(buf, false)]
	return strings.Contains(string(buf), "(*watch).watch")
}

// results of earlier error queries, per worker, looked at again before the worker's next operation
var heldResults, heldErrors sync.Map

func c12Op(cache *cdi.Cache, kind string, r *rand.Rand, dirs []string, w int, mkSpec func(*rand.Rand, string) *specs.Spec) {
	if m, ok := heldResults.Load(w); ok {
		for d, e := range m.(map[string]error) {
			_, _ = d, e.Error()
		}
	}
	if m, ok := heldErrors.Load(w); ok {
		for _, es := range m.(map[string][]error) {
			for _, e := range es {
				_ = e.Error()
			}
		}
	}
	readDevice := func(d *cdi.Device) {
		if d == nil {
			return
		}
		_ = jsonStr(d.Device)
		if s := d.GetSpec(); s != nil {
			_ = jsonStr(s.Spec)
			_ = s.GetPath() + s.GetVendor() + s.GetClass()
			_ = s.GetPriority()
		}
		_ = d.GetQualifiedName()
	}
	switch kind {
	case "ListDevices":
		for _, q := range cache.ListDevices() {
			_ = q
		}
	case "GetDevice":
		readDevice(cache.GetDevice(fmt.Sprintf("vendor.com/%s=dev%d", pickStr(r, "gpu", "net"), r.Intn(3))))
	case "ListVendors":
		cache.ListVendors()
	case "ListClasses":
		cache.ListClasses()
	case "GetVendorSpecs":
		for _, s := range cache.GetVendorSpecs("vendor.com") {
			_ = jsonStr(s.Spec)
			for _, e := range cache.GetSpecErrors(s) {
				_ = e.Error()
			}
		}
	case "GetSpecErrors":
		for _, s := range cache.GetVendorSpecs("vendor.com") {
			cache.GetSpecErrors(s)
		}
	case "GetSpecDirectories":
		cache.GetSpecDirectories()
	case "GetSpecDirErrors":
		m := cache.GetSpecDirErrors()
		for _, e := range m {
			_ = e.Error()
		}
		// what a query returned is the caller's: it is looked at again later, while the
		// cache goes on living (results are snapshots, not views)
		heldResults.Store(w, m)
	case "GetErrors":
		m := cache.GetErrors()
		for _, es := range m {
			for _, e := range es {
				_ = e.Error()
			}
		}
		heldErrors.Store(w, m)
	case "InjectDevices":
		devs := cache.ListDevices()
		if len(devs) > 3 {
			devs = devs[:3]
		}
		o := genOCI(r)
		cache.InjectDevices(o, devs...)
		_ = jsonStr(o)
	case "Refresh":
		cache.Refresh()
	case "Configure":
		perm := r.Perm(len(dirs))
		var nd []string
		for _, i := range perm[:1+r.Intn(len(dirs))] {
			nd = append(nd, dirs[i])
		}
		// the first directory stays first: it tags the cache for the hooks
		nd = append([]string{dirs[0]}, nd...)
		switch r.Intn(4) {
		case 3:
			// no directories at all for a moment (writes and removals are refused then),
			// the next reconfiguration brings them back
			if chance(r, 50) {
				cache.Configure(cdi.WithSpecDirs())
				break
			}
			fallthrough
		case 0:
			// (the directory slice is the caller's and is reused right away: a cache that
			// kept it instead of a copy reads it under its lock while we write)
			o, reuse := withDirs(nd)
			cache.Configure(o)
			reuse()
		case 1:
			cache.Configure(cdi.WithAutoRefresh(chance(r, 50)))
		default:
			cache.Configure(cdi.WithSpecDirs(nd...), cdi.WithAutoRefresh(chance(r, 50)))
		}
	case "WriteSpec":
		s := mkSpec(r, fmt.Sprintf("w%d", w))
		cache.WriteSpec(s, fmt.Sprintf("written-%d.%s", r.Intn(3), pickStr(r, "json", "yaml")))
	case "RemoveSpec":
		cache.RemoveSpec(fmt.Sprintf("written-%d.%s", r.Intn(3), pickStr(r, "json", "yaml")))
	case "default.Inject":
		o := genOCI(r)
		cdi.InjectDevices(o, "vendor.com/gpu=dev0")
	case "default.Refresh":
		cdi.Refresh()
	case "default.GetErrors":
		cdi.GetErrors()
		readDevice(cdi.GetDefaultCache().GetDevice("vendor.com/gpu=dev0"))
	case "default.Configure":
		cdi.Configure(cdi.WithAutoRefresh(chance(r, 50)))
	}
}

// overlaps counts, per unordered pair of operation kinds, how often two
// operations of different workers overlapped in time.
func overlaps(recs []opRec) map[string]int {
	sort.Slice(recs, func(i, j int) bool { return recs[i].start < recs[j].start })
	out := map[string]int{}
	var active []opRec
	for _, r := range recs {
		k := 0
		for _, a := range active {
			if a.end > r.start {
				active[k] = a
				k++
				if a.worker != r.worker {
					x, y := a.kind, r.kind
					if x > y {
						x, y = y, x
					}
					out[x+" x "+y]++
				}
			}
		}
		active = append(active[:k], r)
	}
	return out
}

var reRaceFunc = regexp.MustCompile(`^\s+(\S+)\(`)

// parseRaceLogs returns distinct race reports keyed by the pair of outermost
// pkg/cdi frames (then by function-level stack pair).
func parseRaceLogs(prefix string) (distinct map[string]string, harnessOnly int) {
	distinct = map[string]string{}
	files, _ := filepath.Glob(prefix + "*")
	for _, f := range files {
		data, _ := os.ReadFile(f)
		for _, block := range strings.Split(string(data), "WARNING: DATA RACE")[1:] {
			if i := strings.Index(block, "=================="); i >= 0 {
				block = block[:i]
			}
			// the two access stacks are the first two paragraphs
			paras := strings.Split(strings.TrimSpace(block), "\n\n")
			var outer []string
			var sig []string
			for _, p := range paras[:min(2, len(paras))] {
				last := ""
				var fns []string
				for _, line := range strings.Split(p, "\n") {
					if m := reRaceFunc.FindStringSubmatch(line); m != nil {
						fns = append(fns, m[1])
						if strings.Contains(m[1], "container-device-interface/pkg/cdi.") || strings.Contains(m[1], "container-device-interface/pkg/parser.") || strings.Contains(m[1], "container-device-interface/specs-go.") {
							last = m[1]
						}
					}
				}
				outer = append(outer, last)
				sig = append(sig, strings.Join(fns, "<"))
			}
			if len(outer) < 2 || (outer[0] == "" && outer[1] == "") {
				harnessOnly++
				continue
			}
			sort.Strings(outer)
			key := strings.Join(outer, " || ")
			if _, ok := distinct[key]; !ok {
				distinct[key] = "WARNING: DATA RACE" + clip(block, 6000)
			}
		}
	}
	return
}

// ---------------------------------------------------------------- Phase S

const c12NDev = 4

func c12VersionSpec(v int) *specs.Spec {
	s := &specs.Spec{Version: "0.6.0", Kind: "vendor.com/gpu"}
	s.ContainerEdits.Env = []string{fmt.Sprintf("SPECV=%d", v)}
	for i := 0; i < c12NDev; i++ {
		s.Devices = append(s.Devices, specs.Device{Name: fmt.Sprintf("dev%d", i), ContainerEdits: specs.ContainerEdits{Env: []string{fmt.Sprintf("DEV%d_V=%d", i, v)}}})
	}
	// optional devices: optK present iff bit k of v is set
	for k := 0; k < 3; k++ {
		if v&(1<<k) != 0 {
			s.Devices = append(s.Devices, specs.Device{Name: fmt.Sprintf("opt%d", k), ContainerEdits: specs.ContainerEdits{Env: []string{fmt.Sprintf("OPT%d_V=%d", k, v)}}})
		}
	}
	return s
}

type c12In struct {
	Kind string // pub | refresh | read
	V    int
}

func (c c12In) String() string { return fmt.Sprintf("%s(%d)", c.Kind, c.V) }

type c12State struct{ fs, cache int }

var c12Model = porcupine.Model{
	Init: func() any { return c12State{0, 0} },
	Step: func(st, in, out any) (bool, any) {
		s := st.(c12State)
		i := in.(c12In)
		switch i.Kind {
		case "pub":
			s.fs = i.V
			return true, s
		case "refresh":
			s.cache = s.fs
			return true, s
		default:
			return out.(int) == s.cache, s
		}
	},
	Equal: func(a, b any) bool { return a == b },
	DescribeOperation: func(in, out any) string {
		return fmt.Sprintf("%v -> %v", in, out)
	},
}

// c12SnapDirs lays out the two directories of a snapshot history and publishes version 0.
func c12SnapDirs(root string) (lower, upper string, publish func(int)) {
	lower, upper = filepath.Join(root, "a-lower"), filepath.Join(root, "b-upper")
	must(os.MkdirAll(lower, 0o755))
	must(os.MkdirAll(upper, 0o755))
	// static lower file: other kind, must always resolve unchanged
	static := &specs.Spec{Version: "0.6.0", Kind: "static.org/thing", Devices: []specs.Device{{Name: "s0", ContainerEdits: specs.ContainerEdits{Env: []string{"STATIC=1"}}}}}
	must(os.WriteFile(filepath.Join(lower, "static.json"), specBytes(static, "json"), 0o644))
	// and a shadowed definition of the versioned kind with version stamp -8 (no optional devices: -8&7 == 0)
	must(os.WriteFile(filepath.Join(lower, "shadowed.json"), specBytes(c12VersionSpec(-8), "json"), 0o644))
	target := filepath.Join(upper, "versioned.json")
	publish = func(v int) {
		tmp := filepath.Join(root, fmt.Sprintf("stage-%d", v))
		must(os.WriteFile(tmp, specBytes(c12VersionSpec(v), "json"), 0o644))
		must(os.Rename(tmp, target))
	}
	publish(0)
	return
}

// c12NoWatcherCaches prepares n snapshot scenarios whose auto-refresh cache was
// created while the process could not open a single descriptor: such a cache has
// no watcher and rescans on every query. Must run while nothing else in the
// process opens files (the limit is process-wide).
func c12NoWatcherCaches(c *Ctx, n int) []*cdi.Cache {
	roots := make([]string, n)
	for i := range roots {
		roots[i] = filepath.Join(c.Scratch, fmt.Sprintf("snap-nowatcher_%d", i))
		c12SnapDirs(roots[i])
	}
	var old syscall.Rlimit
	must(syscall.Getrlimit(syscall.RLIMIT_NOFILE, &old))
	lim := old
	lim.Cur = 0
	must(syscall.Setrlimit(syscall.RLIMIT_NOFILE, &lim))
	caches := make([]*cdi.Cache, n)
	for i := range caches {
		caches[i], _ = cdi.NewCache(cdi.WithSpecDirs(filepath.Join(roots[i], "a-lower"), filepath.Join(roots[i], "b-upper")), cdi.WithAutoRefresh(true))
	}
	must(syscall.Setrlimit(syscall.RLIMIT_NOFILE, &old))
	return caches
}

// c12Snapshot runs one short history. pre, if not nil, is an auto-refresh cache
// without watcher prepared by c12NoWatcherCaches for this case.
func c12Snapshot(cs *Case, auto bool, pre *cdi.Cache) {
	c, r := cs.Ctx, cs.R
	root := filepath.Join(c.Scratch, sanitize(cs.Name))
	defer os.RemoveAll(root)
	lower, upper, publish := c12SnapDirs(root)
	cache := pre
	if cache == nil {
		cache, _ = cdi.NewCache(cdi.WithSpecDirs(lower, upper), cdi.WithAutoRefresh(auto))
	} else if !watcherMissing(cache) {
		c.Count("nowatcher_caches_that_have_a_watcher", 1)
	}
	defer releaseCache(cache)
	var mu sync.Mutex
	var ops []porcupine.Operation
	add := func(client int, in c12In, call int64, out int, ret int64) {
		mu.Lock()
		ops = append(ops, porcupine.Operation{ClientId: client, Input: in, Call: call, Output: out, Return: ret})
		mu.Unlock()
	}
	const watcherClient = 9
	if auto {
		var wstart int64
		var wmu sync.Mutex
		unhook := hookPrefix(lower, func(point, arg string, n int) {
			switch point {
			case "refresh.begin":
				wmu.Lock()
				wstart = 0
				if watcherGoroutine() {
					wstart = nowNS()
				}
				wmu.Unlock()
			case "refresh.end":
				wmu.Lock()
				if wstart != 0 {
					add(watcherClient, c12In{"refresh", 0}, wstart, 0, nowNS())
					wstart = 0
				}
				wmu.Unlock()
			}
		})
		defer unhook()
	}
	var bad []string
	var badMu sync.Mutex
	fail := func(format string, a ...any) {
		badMu.Lock()
		if len(bad) < 5 {
			bad = append(bad, fmt.Sprintf(format, a...))
		}
		badMu.Unlock()
	}
	var published atomic.Int64
	nclients := 3 + r.Intn(3)
	nops := 8 + r.Intn(22)
	var wg sync.WaitGroup
	// client 0 is the single switcher
	seeds := make([]int64, nclients)
	for i := range seeds {
		seeds[i] = r.Int63()
	}
	for cl := 0; cl < nclients; cl++ {
		wg.Add(1)
		go func(cl int) {
			defer wg.Done()
			rr := rand.New(rand.NewSource(seeds[cl]))
			lastSeen := -1
			for i := 0; i < nops; i++ {
				if cl == 0 {
					if chance(rr, 50) {
						v := int(published.Load()) + 1
						t0 := nowNS()
						publish(v)
						published.Store(int64(v))
						add(cl, c12In{"pub", v}, t0, 0, nowNS())
					} else {
						runtime.Gosched()
					}
					continue
				}
				switch k := rr.Intn(10); {
				case k < 2 && !auto:
					t0 := nowNS()
					cache.Refresh()
					add(cl, c12In{"refresh", 0}, t0, 0, nowNS())
				case k < 6: // InjectDevices of several devices: one version everywhere
					o := &oci.Spec{}
					req := []string{"vendor.com/gpu=dev0", "vendor.com/gpu=dev3", "static.org/thing=s0", "vendor.com/gpu=dev1"}
					t0 := nowNS()
					unres, err := cache.InjectDevices(o, req...)
					t1 := nowNS()
					if err != nil || len(unres) > 0 {
						fail("InjectDevices%v fails although every version defines these devices: %v %v", req, unres, err)
						continue
					}
					vers := map[string]bool{}
					static := false
					var env []string
					if o.Process != nil {
						env = o.Process.Env
					}
					for _, e := range env {
						if e == "STATIC=1" {
							static = true
						} else if i := strings.LastIndexByte(e, '='); i >= 0 {
							vers[e[i+1:]] = true
						}
					}
					if len(vers) != 1 || !static || len(env) != 5 {
						fail("one InjectDevices call mixes versions or misses edits: env %v", env)
						continue
					}
					var v int
					for s := range vers {
						fmt.Sscanf(s, "%d", &v)
					}
					if v < 0 {
						fail("InjectDevices used the shadowed lower-priority definition: env %v", env)
						continue
					}
					if v < lastSeen {
						fail("client %d saw version %d after version %d (InjectDevices)", cl, v, lastSeen)
					}
					lastSeen = v
					if int64(v) > published.Load()+1 {
						fail("InjectDevices returned version %d which was never published", v)
					}
					add(cl, c12In{"read", 0}, t0, v, t1)
					c.Count("reads_with_version", 1)
				case k < 8: // ListDevices: exactly the device set of one version
					got := cache.ListDevices()
					c.Count("list_reads", 1)
					var opt int
					n := 0
					okSet := true
					for _, q := range got {
						switch {
						case q == "static.org/thing=s0":
						case strings.HasPrefix(q, "vendor.com/gpu=dev"):
							n++
						case strings.HasPrefix(q, "vendor.com/gpu=opt"):
							var k int
							fmt.Sscanf(q, "vendor.com/gpu=opt%d", &k)
							opt |= 1 << k
						default:
							okSet = false
						}
					}
					if !okSet || n != c12NDev || len(got) < 1+c12NDev {
						fail("ListDevices returned a set that belongs to no published version: %v", got)
					}
					// the optional set must be the low bits of some published version
					found := false
					for v := 0; v <= int(published.Load())+1; v++ {
						if v&7 == opt {
							found = true
						}
					}
					if !found {
						fail("ListDevices: optional devices %03b match no published version (<= %d): %v", opt, published.Load()+1, got)
					}
				default: // GetVendorSpecs + GetDevice: objects of one version
					for _, s := range cache.GetVendorSpecs("vendor.com") {
						if s.GetPriority() != 1 {
							continue
						}
						vs := map[string]bool{}
						for _, d := range s.Devices {
							for _, e := range d.ContainerEdits.Env {
								vs[e[strings.LastIndexByte(e, '=')+1:]] = true
							}
						}
						if len(vs) != 1 {
							fail("a cached Spec object mixes versions: %v", vs)
						}
					}
					if d := cache.GetDevice("vendor.com/gpu=dev2"); d == nil {
						fail("GetDevice(dev2) = nil although every version defines it")
					} else if d.GetSpec().GetPriority() != 1 {
						fail("GetDevice(dev2) resolves to the shadowed lower-priority Spec")
					}
					c.Count("object_reads", 1)
				}
			}
		}(cl)
	}
	wg.Wait()
	c.Count("histories", 1)
	c.Count("versions_published", int(published.Load()))
	if len(bad) > 0 {
		cs.Violation("snapshot", map[string]string{"auto": fmt.Sprint(auto)}, bad[0], map[string]any{"all": bad, "auto": auto, "clients": nclients})
		return
	}
	if pre != nil {
		// every query of a watcher-less cache rescans: there is no separate refresh
		// operation to linearize; the no-mixture and monotonicity oracles above decide
		c.Count("histories_on_watcherless_auto_cache", 1)
		return
	}
	// linearizability of {Publish, Refresh, Read}
	mu.Lock()
	hist := append([]porcupine.Operation{}, ops...)
	mu.Unlock()
	overlap := false
	for i := range hist {
		for j := range hist {
			if hist[i].ClientId != hist[j].ClientId && hist[i].Call < hist[j].Return && hist[j].Call < hist[i].Return {
				overlap = true
			}
		}
	}
	if overlap {
		c.Count("histories_with_overlapping_clients", 1)
	}
	res, info := porcupine.CheckOperationsVerbose(c12Model, hist, 60*time.Second)
	switch res {
	case porcupine.Ok:
		c.Count("histories_linearizable", 1)
		sig := fmt.Sprintf("%v|%d|%d", auto, nclients, len(hist))
		c.Distinct(sig + "|" + fmt.Sprint(published.Load()))
	case porcupine.Unknown:
		c.Count("histories_unknown", 1)
		c.Inconclusive("linearizability-timeout")
	case porcupine.Illegal:
		var lines []string
		sort.Slice(hist, func(i, j int) bool { return hist[i].Call < hist[j].Call })
		for _, o := range hist {
			lines = append(lines, fmt.Sprintf("client %d: %v -> %v  [%d, %d]", o.ClientId, o.Input, o.Output, o.Call, o.Return))
		}
		_ = info
		cs.Violation("not-linearizable", map[string]string{"auto": fmt.Sprint(auto)}, fmt.Sprintf("the history of %d operations is not linearizable against the model (fs, cache): Publish sets fs, Refresh copies fs to cache, Read returns cache", len(hist)), map[string]any{"history": lines, "auto": auto})
	}
	if len(hist) > 0 {
		var lines []string
		for i, o := range hist {
			if i >= 12 {
				break
			}
			lines = append(lines, fmt.Sprintf("client %d: %v -> %v", o.ClientId, o.Input, o.Output))
		}
		c.Sample(2, map[string]any{"auto": auto, "clients": nclients, "operations": len(hist), "first_operations": lines})
	}
}

func checkC12(c *Ctx) {
	c.Rule = "race build. Phase R: 8-24 goroutines x seeded streams over all public cache operations (queries incl. reading every field of returned devices/Specs, InjectDevices with host fill-in, Refresh, Configure with directory permutations and auto on/off, WriteSpec, RemoveSpec, GetErrors/GetSpecErrors/GetSpecDirErrors, package-level default-cache functions) on one cache in manual and auto mode with an external mutator; Go race detector reports de-duplicated by the pair of outermost pkg/cdi frames; progress monitor. Phase S: thousands of short histories (3-5 clients x 8-30 steps): a single switcher publishes versions of the upper Spec file atomically, readers run InjectDevices(several devices)/ListDevices/GetVendorSpecs/GetDevice, refreshers call Refresh (manual) or the watcher does (auto, recorded through refresh.begin/end); oracles: no mixture of versions in one result, per-goroutine monotonicity, linearizability of {Publish, Refresh, Read->v} against a 3-line model with porcupine; distinct_nontrivial = distinct overlapping operation-kind pairs observed in phase R + distinct (mode, clients, history length, versions) of linearizable histories"
	c.Assume("the race detector reports only races the workload executes", "call/return stamps are taken at the client boundary from one monotonic clock; watcher refreshes are stamped at refresh.begin/end", "Phase S histories do not reconfigure the cache and never remove the upper file")
	raceLog := os.Getenv("VERIF_RACE_LOG")
	if !raceEnabled {
		c.HarnessError("vcheck was not built with -race")
		return
	}
	// the default cache of this process lives in a scratch directory
	defRoot := filepath.Join(c.Scratch, "default")
	must(os.MkdirAll(filepath.Join(defRoot, "etc"), 0o755))
	must(os.MkdirAll(filepath.Join(defRoot, "run"), 0o755))
	must(os.WriteFile(filepath.Join(defRoot, "etc", "d.json"), specBytes(genSpec(rand.New(rand.NewSource(1)), SpecGen{Vendor: "vendor.com", Class: "gpu", DevNames: []string{"dev0"}, Plain: true, Marker: "def"}), "json"), 0o644))
	cdi.DefaultSpecDirs = []string{filepath.Join(defRoot, "etc"), filepath.Join(defRoot, "run")}
	defer func() { releaseCache(cdi.GetDefaultCache()) }()
	if c.replayCase == "" || strings.HasPrefix(c.replayCase, "stress") || c.replayCase == "race" {
		runs := c.pick(2, 8)
		total := map[string]int{}
		for i := 0; i < runs; i++ {
			auto := i%2 == 1
			name := fmt.Sprintf("stress:%d", i)
			workers := []int{8, 12, 24, 16}[i%4]
			if !c.Quick() {
				runtime.GOMAXPROCS([]int{16, 4, 2, 16}[i%4])
			}
			recs, stuck := c12Stress(c, name, c.Seed*100+int64(i), auto, workers, c.pick(250, 1500))
			runtime.GOMAXPROCS(runtime.NumCPU())
			c.AddEvaluations(len(recs))
			if stuck != "" {
				if strings.Contains(stuck, "sync.(*Mutex).Lock") && strings.Contains(stuck, "pkg/cdi.") {
					c.violation(name, "deadlock", nil, "no worker made progress for 30 s and goroutines are parked in Mutex.Lock under pkg/cdi", map[string]any{"goroutines": clip(stuck, 20000)})
				} else {
					c.Inconclusive("no-progress")
				}
				// the stuck goroutines (and possibly the default cache) cannot be recovered:
				// report what we have and leave
				os.Exit(c.Finish())
			}
			for k, v := range overlaps(recs) {
				total[k] += v
			}
		}
		for k, v := range total {
			c.Distinct("overlap|" + k)
			_ = v
		}
		c.Extra("overlap_matrix", total)
		need := [][2]string{{"Configure", "WriteSpec"}, {"Configure", "GetSpecDirErrors"}, {"InjectDevices", "Refresh"}, {"ListDevices", "Refresh"}, {"Configure", "InjectDevices"}, {"InjectDevices", "watcher-refresh"}, {"Configure", "RemoveSpec"}}
		for _, p := range need {
			x, y := p[0], p[1]
			if x > y {
				x, y = y, x
			}
			c.Count("overlap:"+x+" x "+y, total[x+" x "+y])
			c.Floor("overlap:"+x+" x "+y, 3)
		}
	}
	if c.replayCase == "" || strings.HasPrefix(c.replayCase, "snap") {
		n := c.pick(300, 6000)
		// (first, while the process is otherwise idle: see c12NoWatcherCaches)
		nw := c.pick(60, 600)
		pre := c12NoWatcherCaches(c, nw)
		c.RunCases("snap-nowatcher", nw, 4, func(cs *Case) {
			var i int
			fmt.Sscanf(cs.Name, "snap-nowatcher:%d", &i)
			c12Snapshot(cs, true, pre[i])
		})
		c.Floor("histories_on_watcherless_auto_cache", 30)
		c.RunCases("snap-manual", n, 8, func(cs *Case) { c12Snapshot(cs, false, nil) })
		c.RunCases("snap-auto", n/3, 4, func(cs *Case) { c12Snapshot(cs, true, nil) })
		c.Floor("histories_linearizable", 100)
		c.Floor("histories_with_overlapping_clients", 100)
		c.Floor("reads_with_version", 500)
	}
	// several goroutines write the same Spec name at the same time (one cache, or two
	// caches on the same directory): every write succeeds, and whoever looks finds
	// one writer's complete Spec
	if c.replayCase == "" || strings.HasPrefix(c.replayCase, "writers") {
		c.RunCases("writers", c.pick(6, 40), 3, func(cs *Case) {
			r := cs.R
			root := filepath.Join(c.Scratch, sanitize(cs.Name))
			must(os.MkdirAll(root, 0o755))
			defer os.RemoveAll(root)
			c1, _ := cdi.NewCache(cdi.WithSpecDirs(root), cdi.WithAutoRefresh(false))
			c2 := c1
			if chance(r, 50) {
				c2, _ = cdi.NewCache(cdi.WithSpecDirs(root), cdi.WithAutoRefresh(chance(r, 50)))
				defer releaseCache(c2)
			}
			name := "same." + pickStr(r, "json", "yaml")
			var wg sync.WaitGroup
			var first atomic.Pointer[string]
			fail := func(format string, a ...any) {
				m := fmt.Sprintf(format, a...)
				first.CompareAndSwap(nil, &m)
			}
			nw := 4 + r.Intn(5)
			for g := 0; g < nw; g++ {
				wg.Add(1)
				go func(g int) {
					defer wg.Done()
					cache := c1
					if g%2 == 1 {
						cache = c2
					}
					for k := 0; k < 150 && first.Load() == nil; k++ {
						if err := cache.WriteSpec(c12VersionSpec(g*1000+k), name); err != nil {
							fail("WriteSpec(%s) by writer %d fails while %d goroutines write that name: %v", name, g, nw, err)
							return
						}
						c.Count("concurrent_writes_of_one_name", 1)
					}
				}(g)
			}
			stop := make(chan struct{})
			var rg sync.WaitGroup
			rg.Add(1)
			go func() {
				defer rg.Done()
				reader, _ := cdi.NewCache(cdi.WithSpecDirs(root), cdi.WithAutoRefresh(false))
				for {
					select {
					case <-stop:
						return
					default:
					}
					reader.Refresh()
					if errs := reader.GetErrors(); len(errs) > 0 {
						fail("a cache refreshed while %d goroutines write %s finds a file in error: %v", nw, name, errs)
						return
					}
					if devs := reader.ListDevices(); len(devs) > 0 {
						vs := map[string]bool{}
						for _, q := range devs {
							if d := reader.GetDevice(q); d != nil {
								for _, e := range d.ContainerEdits.Env {
									vs[e[strings.LastIndexByte(e, '=')+1:]] = true
								}
							}
						}
						if len(vs) > 1 {
							fail("a cache refreshed while %d goroutines write %s lists devices of several writers at once: %v", nw, name, vs)
							return
						}
					}
					c.Count("refreshes_during_concurrent_writes", 1)
				}
			}()
			wg.Wait()
			close(stop)
			rg.Wait()
			if m := first.Load(); m != nil {
				cs.Violation("concurrent-writers", nil, *m, nil)
			}
		})
		c.Floor("concurrent_writes_of_one_name", 1000)
	}
	// a directory of the list comes and goes (renamed away and back) while the cache is
	// refreshed and asked: what the other, untouched directory defines is there in every
	// answer (a scan that loses a directory half way still covers the directories after it)
	if c.replayCase == "" || strings.HasPrefix(c.replayCase, "flicker") {
		c.RunCases("flicker", c.pick(4, 24), 4, func(cs *Case) {
			r := cs.R
			root := filepath.Join(c.Scratch, sanitize(cs.Name))
			etc, run := filepath.Join(root, "etc"), filepath.Join(root, "run")
			must(os.MkdirAll(etc, 0o755))
			must(os.MkdirAll(run, 0o755))
			defer os.RemoveAll(root)
			for i := 0; i < 3; i++ {
				must(os.WriteFile(filepath.Join(etc, fmt.Sprintf("e%d.json", i)), specBytes(c12VersionSpec(100+i), "json"), 0o644))
			}
			must(os.WriteFile(filepath.Join(run, "stable.json"), []byte(`{"cdiVersion":"0.6.0","kind":"stable.org/dev","devices":[{"name":"s","containerEdits":{"env":["S=1"]}}]}`), 0o644))
			auto := chance(r, 35)
			cache, _ := cdi.NewCache(cdi.WithSpecDirs(etc, run), cdi.WithAutoRefresh(auto))
			defer releaseCache(cache)
			stop := make(chan struct{})
			var wg sync.WaitGroup
			wg.Add(1)
			go func() {
				defer wg.Done()
				for {
					select {
					case <-stop:
						os.Rename(etc+".away", etc)
						return
					default:
					}
					os.Rename(etc, etc+".away")
					os.Rename(etc+".away", etc)
				}
			}()
			bad := ""
			for i := 0; i < c.pick(3000, 15000) && bad == ""; i++ {
				if !auto || i%8 == 0 {
					cache.Refresh()
				}
				if cache.GetDevice("stable.org/dev=s") == nil {
					bad = fmt.Sprintf("after %d refreshes GetDevice(stable.org/dev=s) = nil (errors %v)", i, cache.GetErrors())
				}
				c.Count("queries_while_a_directory_comes_and_goes", 1)
			}
			close(stop)
			wg.Wait()
			if bad != "" {
				cs.Violation("snapshot", map[string]string{"shape": "flickering-directory", "auto": fmt.Sprint(auto)}, "a lower-priority directory is renamed away and back in a loop; the device of the untouched higher-priority directory: "+bad, nil)
			}
		})
	}
	// a cache constructed while its directory changes: the change is made from inside
	// the constructor's own scan, and the constructor then lingers a moment, so that
	// the watcher goroutine it has already started gets the event while the
	// constructor is still at work. Monitors: the race detector, and refresh.begin /
	// refresh.end of one cache never nest (two refreshes at once both assign the index)
	if c.replayCase == "" || strings.HasPrefix(c.replayCase, "construct") {
		c.RunCases("construct", c.pick(40, 400), 4, func(cs *Case) {
			r := cs.R
			root := filepath.Join(c.Scratch, sanitize(cs.Name))
			dir, staging := filepath.Join(root, "d"), filepath.Join(root, "staging")
			must(os.MkdirAll(dir, 0o755))
			must(os.MkdirAll(staging, 0o755))
			defer os.RemoveAll(root)
			n := 2 + r.Intn(3)
			for i := 0; i < n; i++ {
				must(os.WriteFile(filepath.Join(dir, fmt.Sprintf("init%d.json", i)), specBytes(genSpec(r, SpecGen{Vendor: "vendor.com", Class: fmt.Sprintf("c%d", i), DevNames: []string{"dev"}, Plain: true, Marker: "i"}), "json"), 0o644))
			}
			must(os.WriteFile(filepath.Join(staging, "new.json"), specBytes(genSpec(r, SpecGen{Vendor: "vendor.com", Class: "new", DevNames: []string{"dev"}, Plain: true, Marker: "n"}), "json"), 0o644))
			kind := pickStr(r, "rename-in", "remove", "rewrite")
			linger := time.Duration(1+r.Intn(8)) * time.Millisecond
			var active atomic.Int32
			var nested, fired atomic.Bool
			unhook := hookPrefix(root, func(point, arg string, _ int) {
				switch point {
				case "refresh.begin":
					if active.Add(1) > 1 {
						nested.Store(true)
					}
				case "refresh.end":
					active.Add(-1)
				case "scan.beforeRead":
					if fired.CompareAndSwap(false, true) {
						switch kind {
						case "rename-in":
							os.Rename(filepath.Join(staging, "new.json"), filepath.Join(dir, "new.json"))
						case "remove":
							os.Remove(filepath.Join(dir, fmt.Sprintf("init%d.json", n-1)))
						default:
							data, _ := os.ReadFile(filepath.Join(staging, "new.json"))
							os.WriteFile(filepath.Join(dir, fmt.Sprintf("init%d.json", n-1)), data, 0o644)
						}
						time.Sleep(linger)
					}
				}
			})
			defer unhook()
			cache, _ := cdi.NewCache(cdi.WithSpecDirs(dir))
			defer releaseCache(cache)
			if watcherMissing(cache) {
				c.Inconclusive("no-inotify-instance")
				return
			}
			for k := 0; k < 20; k++ {
				cache.ListDevices()
				cache.GetErrors()
				time.Sleep(time.Millisecond)
			}
			if fired.Load() {
				c.Count("caches_constructed_while_their_directory_changed", 1)
				c.Count("construction_change:"+kind, 1)
			}
			if nested.Load() {
				cs.Violation("unserialised-refresh", map[string]string{"change": kind}, fmt.Sprintf("two refreshes of one cache ran at the same time (refresh.begin seen again before refresh.end) while the cache was constructed and its directory changed (%s)", kind), nil)
			}
		})
		c.Floor("caches_constructed_while_their_directory_changed", 20)
	}
	// the kernel's event queue of a cache's watcher overflows (the watcher goroutine
	// is held at its first event while more events than the queue takes are produced),
	// readers and refreshers keep going while the watcher works through what is left
	if c.replayCase == "" || strings.HasPrefix(c.replayCase, "overflow") {
		c.RunCases("overflow", c.pick(1, 4), 1, func(cs *Case) {
			limit := 0
			if b, err := os.ReadFile("/proc/sys/fs/inotify/max_queued_events"); err == nil {
				fmt.Sscanf(strings.TrimSpace(string(b)), "%d", &limit)
			}
			if limit <= 0 || limit > 200000 {
				c.Inconclusive("event-queue-size")
				return
			}
			r := cs.R
			root := filepath.Join(c.Scratch, sanitize(cs.Name))
			dir := filepath.Join(root, "d")
			must(os.MkdirAll(dir, 0o755))
			defer os.RemoveAll(root)
			must(os.WriteFile(filepath.Join(dir, "a.json"), specBytes(c12VersionSpec(1), "json"), 0o644))
			gate := make(chan struct{})
			var events atomic.Int64
			var active atomic.Int32
			var nested atomic.Bool
			unhook := hookPrefix(root, func(point, arg string, _ int) {
				switch point {
				case "watch.event":
					if events.Add(1) == 1 {
						<-gate
					}
				case "refresh.begin":
					if active.Add(1) > 1 {
						nested.Store(true)
					}
				case "refresh.end":
					active.Add(-1)
				}
			})
			defer unhook()
			cache, _ := cdi.NewCache(cdi.WithSpecDirs(dir))
			defer releaseCache(cache)
			if watcherMissing(cache) {
				close(gate)
				c.Inconclusive("no-inotify-instance")
				return
			}
			// the burst: writes to two plain files in turn (consecutive identical events
			// would be merged by the kernel)
			fa, err1 := os.Create(filepath.Join(dir, "burst-a.tmp"))
			fb, err2 := os.Create(filepath.Join(dir, "burst-b.tmp"))
			must(err1)
			must(err2)
			total := limit + limit/2 + r.Intn(1000)
			for i := 0; i < total/2; i++ {
				fa.Write([]byte{'x'})
				fb.Write([]byte{'y'})
			}
			fa.Close()
			fb.Close()
			must(os.WriteFile(filepath.Join(dir, "late.json"), specBytes(c12VersionSpec(2), "json"), 0o644))
			stop := make(chan struct{})
			var wg sync.WaitGroup
			for g := 0; g < 6; g++ {
				wg.Add(1)
				go func(g int) {
					defer wg.Done()
					for {
						select {
						case <-stop:
							return
						default:
						}
						switch g % 3 {
						case 0:
							for _, q := range cache.ListDevices() {
								if d := cache.GetDevice(q); d != nil {
									_ = len(d.ContainerEdits.Env)
								}
							}
						case 1:
							cache.InjectDevices(&oci.Spec{}, cache.ListDevices()...)
							cache.GetErrors()
						default:
							cache.Refresh()
							cache.GetSpecDirErrors()
						}
						c.Count("operations_while_the_watcher_works_off_an_overflowed_queue", 1)
					}
				}(g)
			}
			close(gate)
			// until the watcher has gone through the queue: no further event for a while
			last, idle := events.Load(), 0
			for i := 0; i < 1200 && idle < 10; i++ {
				time.Sleep(50 * time.Millisecond)
				if now := events.Load(); now == last {
					idle++
				} else {
					last, idle = now, 0
				}
			}
			time.Sleep(200 * time.Millisecond)
			close(stop)
			wg.Wait()
			c.Count("events_produced_for_one_watcher", total)
			c.Count("events_delivered_after_the_burst", int(events.Load()))
			if int(events.Load()) >= total {
				// everything arrived: the queue did not overflow after all
				c.Count("bursts_without_overflow", 1)
			} else {
				c.Count("bursts_with_overflow", 1)
			}
			if nested.Load() {
				cs.Violation("unserialised-refresh", nil, "two refreshes of one cache ran at the same time (refresh.begin seen again before refresh.end) after the watcher's event queue had overflowed", nil)
			}
		})
		c.Floor("bursts_with_overflow", 1)
	}
	// concurrent first use of the default cache in fresh (race-built) processes
	if c.replayCase == "" || strings.HasPrefix(c.replayCase, "first-use") {
		exe, _ := os.Executable()
		c.RunCases("first-use", c.pick(6, 40), 3, func(cs *Case) {
			out, err := exec.Command(exe, "child-c12first", defRoot).CombinedOutput()
			text := string(out)
			c.Count("first_use_processes", 1)
			if err != nil || !strings.Contains(text, "SAME ") {
				cs.Violation("first-use-crash", nil, fmt.Sprintf("a process whose first uses of the default cache are concurrent died: %v: %s", err, clip(text, 3000)), nil)
				return
			}
			if !strings.Contains(text, "SAME true") || !strings.Contains(text, "DEVICES 1") {
				cs.Violation("first-use", nil, "concurrent first uses of the default cache did not all get the same, fully built cache: "+clip(text, 500), nil)
			}
		})
	}
	if d := deadlocked.Load(); d != nil {
		c.violation("cleanup", "deadlock", nil, "Cache.Configure(WithAutoRefresh(false)) never returned (60 s) on a cache that had been used concurrently", map[string]any{"goroutines": clip(*d, 30000)})
	}
	// race reports
	if raceLog != "" {
		distinct, harnessOnly := parseRaceLogs(raceLog)
		c.Count("race_reports_distinct", len(distinct))
		if harnessOnly > 0 {
			c.HarnessError("%d race reports with both stacks outside the library (harness bug)", harnessOnly)
		}
		keys := make([]string, 0, len(distinct))
		for k := range distinct {
			keys = append(keys, k)
		}
		sort.Strings(keys)
		for _, k := range keys {
			c.violation("race", "data-race", map[string]string{"frames": k}, "the race detector reports a data race between "+k, map[string]any{"report": distinct[k]})
		}
		c.Extra("race_reports", keys)
	} else {
		c.HarnessError("VERIF_RACE_LOG not set: race reports cannot be collected")
	}
}
