package main

// G-DIRS + M-RESOLVE: populations of Spec directories, their histories, and
// the reference resolution model written from the statement of C01.

import (
	"fmt"
	"math/rand"
	"os"
	"path/filepath"
	"sort"
	"strings"
	"sync/atomic"

	"golang.org/x/sys/unix"
	"tags.cncf.io/container-device-interface/pkg/cdi"
	specs "tags.cncf.io/container-device-interface/specs-go"
)

type PFile struct {
	Phys    int    // physical directory index
	Name    string // name relative to the directory ("x.json", "sub/x.json")
	Kind    string // valid | syntax | semantic | empty | version
	Spec    *specs.Spec
	Enc     string
	Content []byte
	Marker  string
	Link    string // "": a regular file; "rel" / "abs": a symbolic link (relative / absolute target) to a file holding the content, next to it
	HasTwin bool   // another entry of the directory is a link to this one (Step leaves both alone)
	TwinOf  string // not empty: this entry is a hard link to (or a symbolic link to) the named file of the same directory
}

// specNamed reports whether the cache must consider this entry: a .json/.yaml
// file directly inside the directory.
func (f *PFile) specNamed() bool {
	if strings.Contains(f.Name, "/") {
		return false
	}
	ext := filepath.Ext(f.Name)
	return ext == ".json" || ext == ".yaml"
}

type Pop struct {
	Root            string
	Phys            []string // physical directories (absolute, clean)
	Exists          []bool   // whether the physical directory exists
	Conf            []string // configured list as passed to WithSpecDirs (possibly non-clean, repeated)
	ConfPhys        []int    // physical index of each configured entry
	Files           []*PFile
	nmarker         int
	Protect         int            // physical directory that Step never removes or populates (-1: none)
	Force           []int          // operations the next calls of Step have to make (6: a directory leaves, 7: a missing one comes back, 0: a file is added)
	ForceRenameAway bool           // with Force 6: the directory leaves by being renamed away
	DirFault        map[int]string // physical index -> isfile | enotdir | noread | nosearch (C13)
	Opt             PopOpt
	Kinds           [][2]string
	DevPool         []string
}

// PopOpt tunes the generated Spec files.
type PopOpt struct {
	Rich  bool       // all edit kinds (device nodes, RDT, GIDs, annotations), not only env/mounts/hooks
	Hosts []HostNode // host device nodes the generated device nodes may refer to
}

type Winner struct {
	Path string
	Prio int
	Dev  specs.Device
	File *PFile
}

type PathPrio struct {
	Path string
	Prio int
}

type Resolved struct {
	Devices                                                                                                map[string]*Winner
	Vendors                                                                                                []string
	Classes                                                                                                []string
	VendorSpecs                                                                                            map[string][]PathPrio
	ErrPaths                                                                                               map[string]bool // Spec-named files that must be reported
	Conflicts                                                                                              map[string]bool // files taking part in a same-priority conflict
	Shape                                                                                                  string
	HasShadow, HasConflictTop, HasConflictBelow, HasRepeat, HasMissing, HasInvalid, HasIgnored, HasSpecial bool
}

func (p *Pop) marker() string {
	p.nmarker++
	return fmt.Sprintf("f%d", p.nmarker)
}

func (p *Pop) newValidFile(r *rand.Rand, phys int, name string) *PFile {
	k := p.Kinds[r.Intn(len(p.Kinds))]
	n := 1 + r.Intn(3)
	perm := r.Perm(len(p.DevPool))
	var names []string
	for i := 0; i < n && i < len(perm); i++ {
		names = append(names, p.DevPool[perm[i]])
	}
	f := &PFile{Phys: phys, Name: name, Kind: "valid", Marker: p.marker()}
	f.Spec = genSpec(r, SpecGen{Vendor: k[0], Class: k[1], Marker: f.Marker, DevNames: names, Plain: !p.Opt.Rich, HostNodes: p.Opt.Hosts})
	f.Enc = "json"
	if strings.HasSuffix(name, ".yaml") || (!strings.HasSuffix(name, ".json") && chance(r, 50)) {
		f.Enc = "yaml"
	}
	f.Content = specBytes(f.Spec, f.Enc)
	if !strings.Contains(name, "/") && chance(r, 8) {
		// the Spec file is a symbolic link, as tools that keep one link per file make them
		f.Link = pickStr(r, "rel", "abs")
	}
	return f
}

func (p *Pop) newInvalidFile(r *rand.Rand, phys int, name string) *PFile {
	f := &PFile{Phys: phys, Name: name, Marker: p.marker()}
	switch r.Intn(4) {
	case 0:
		f.Kind, f.Content = "syntax", []byte(`{"cdiVersion": "0.6.0", "kind": `)
	case 1:
		f.Kind, f.Content = "semantic", []byte(`{"cdiVersion":"0.6.0","kind":"`+p.Kinds[0][0]+"/"+p.Kinds[0][1]+`","devices":[]}`)
	case 2:
		f.Kind, f.Content = "empty", nil
	default:
		f.Kind, f.Content = "version", []byte(`{"cdiVersion":"9.9.9","kind":"`+p.Kinds[0][0]+"/"+p.Kinds[0][1]+`","devices":[{"name":"`+p.DevPool[0]+`","containerEdits":{"env":["A=b"]}}]}`)
	}
	return f
}

var specFileNames = []string{"a.json", "b.yaml", "c.json", "d.yaml", "e.json", "vendor-class.yaml", ".hidden.json", "x.y.json"}
var nonSpecNames = []string{"notes.txt", "a.json.bak", "spec.123.tmp", "README", "b.JSON", "c.yml", "d.yaml~", "sub/inner.json", "sub.json/inner.yaml"}

// entries that are neither regular files nor directories (and have no Spec
// name): a FIFO and a symbolic link to a directory; everything after them in
// the directory must still be found
var specialNames = []string{"0-fifo", "agent.pipe", "c-current", "m-link"}

// genPop generates a population with 1..4 configured directories.
func genPop(r *rand.Rand, root string, opt ...PopOpt) *Pop {
	p := &Pop{Root: root, Protect: -1, DirFault: map[int]string{}}
	if len(opt) > 0 {
		p.Opt = opt[0]
	}
	p.Kinds = [][2]string{{"vendor.com", "gpu"}, {"acme.io", "net"}}
	if chance(r, 30) {
		p.Kinds = append(p.Kinds, [2]string{"vendor.com", "net"})
	}
	p.DevPool = []string{"dev0", "dev1", "dev2"}
	nphys := 1 + r.Intn(3)
	for i := 0; i < nphys; i++ {
		// (a directory name is a name: characters that mean something to a pattern matcher,
		// a shell or a URL parser do not mean anything here)
		p.Phys = append(p.Phys, filepath.Join(root, fmt.Sprintf("d%d", i)+pickStr(r, "", "", "", "", "", "[1]", "\\x", "[", "*?", " sp", "{a}", "%41")))
		p.Exists = append(p.Exists, true)
	}
	if chance(r, 30) { // a missing directory
		p.Phys = append(p.Phys, filepath.Join(root, "missing"))
		p.Exists = append(p.Exists, false)
	}
	// configured list: a permutation of the physical dirs, sometimes with a repetition
	perm := r.Perm(len(p.Phys))
	for _, i := range perm {
		p.ConfPhys = append(p.ConfPhys, i)
	}
	if chance(r, 25) {
		at := r.Intn(len(p.ConfPhys) + 1)
		dup := p.ConfPhys[r.Intn(len(p.ConfPhys))]
		p.ConfPhys = append(p.ConfPhys[:at:at], append([]int{dup}, p.ConfPhys[at:]...)...)
	}
	for _, i := range p.ConfPhys {
		d := p.Phys[i]
		switch r.Intn(5) {
		case 0:
			d += "/"
		case 1:
			d = filepath.Dir(d) + "/./" + filepath.Base(d)
		case 2:
			d = d + "/../" + filepath.Base(d)
		}
		p.Conf = append(p.Conf, d)
	}
	// files
	for i := range p.Phys {
		if !p.Exists[i] {
			continue
		}
		n := r.Intn(5)
		used := map[string]bool{}
		for k := 0; k < n; k++ {
			name := specFileNames[r.Intn(len(specFileNames))]
			if used[name] {
				continue
			}
			used[name] = true
			if chance(r, 18) {
				p.Files = append(p.Files, p.newInvalidFile(r, i, name))
			} else {
				p.Files = append(p.Files, p.newValidFile(r, i, name))
			}
		}
		if chance(r, 10) {
			// the same file under a second Spec name: a hard link or a symbolic link next to
			// it. Two entries, two Spec files (that they define the same devices makes it a conflict)
			for _, f := range p.Files {
				if f.Phys == i && f.Kind == "valid" && f.specNamed() && f.Link == "" {
					name := "twin-of-" + f.Name
					if p.find(i, name) < 0 {
						nf := *f
						f.HasTwin = true
						nf.Name, nf.TwinOf = name, pickStr(r, f.Name, "sym:"+f.Name)
						p.Files = append(p.Files, &nf)
					}
					break
				}
			}
		}
		for k := 0; k < r.Intn(3); k++ {
			name := nonSpecNames[r.Intn(len(nonSpecNames))]
			if used[name] {
				continue
			}
			used[name] = true
			p.Files = append(p.Files, p.newValidFile(r, i, name))
		}
		if chance(r, 25) {
			name := specialNames[r.Intn(len(specialNames))]
			f := p.newValidFile(r, i, name)
			f.Kind = "fifo"
			if strings.Contains(name, "current") || strings.Contains(name, "link") {
				f.Kind = "linkdir"
			}
			p.Files = append(p.Files, f)
		}
	}
	return p
}

func (p *Pop) path(f *PFile) string { return filepath.Join(p.Phys[f.Phys], f.Name) }

// Write materialises the whole population from scratch.
func (p *Pop) Write() {
	for i, d := range p.Phys {
		os.Chmod(d, 0o755)
		os.RemoveAll(d)
		if p.Exists[i] && p.DirFault[i] != "isfile" && p.DirFault[i] != "enotdir" {
			must(os.MkdirAll(d, 0o755))
		}
	}
	for _, f := range p.Files {
		if p.DirFault[f.Phys] == "isfile" || p.DirFault[f.Phys] == "enotdir" {
			continue
		}
		p.writeFile(f)
	}
	for i, d := range p.Phys {
		switch p.DirFault[i] {
		case "isfile":
			must(os.WriteFile(d, []byte("not a directory"), 0o644))
		case "enotdir": // d = <file>/sub
			os.RemoveAll(filepath.Dir(d))
			must(os.WriteFile(filepath.Dir(d), []byte("not a directory"), 0o644))
		case "noread":
			must(os.Chmod(d, 0o311))
		case "nosearch":
			must(os.Chmod(d, 0o644))
		}
	}
}

func (p *Pop) writeFile(f *PFile) {
	path := p.path(f)
	must(os.MkdirAll(filepath.Dir(path), 0o755))
	os.Remove(path)
	switch f.Kind {
	case "dangling":
		must(os.Symlink(filepath.Join(p.Root, "nowhere", "target.json"), path))
	case "fifo":
		must(unix.Mkfifo(path, 0o644))
	case "linkdir": // a symbolic link to a directory which holds a valid Spec
		target := filepath.Join(p.Root, "linktarget")
		must(os.MkdirAll(target, 0o755))
		must(os.WriteFile(filepath.Join(target, "inside.json"), f.Content, 0o644))
		must(os.Symlink(target, path))
	case "unreadable":
		must(os.WriteFile(path, f.Content, 0o000))
		must(os.Chmod(path, 0o000))
	default:
		if f.TwinOf != "" {
			if strings.HasPrefix(f.TwinOf, "sym:") {
				must(os.Symlink(strings.TrimPrefix(f.TwinOf, "sym:"), path))
			} else {
				must(os.Link(filepath.Join(filepath.Dir(path), f.TwinOf), path))
			}
			return
		}
		if f.Link != "" && f.specNamed() {
			// (a data file of its own for every write: a later file of the same name, written
			// after this one was renamed, must not share it)
			p.nmarker++
			data := fmt.Sprintf(".%s.%d.linked-data", filepath.Base(path), p.nmarker)
			must(os.WriteFile(filepath.Join(filepath.Dir(path), data), f.Content, 0o644))
			if f.Link == "abs" {
				data = filepath.Join(filepath.Dir(path), data)
			}
			must(os.Symlink(data, path))
			return
		}
		must(os.WriteFile(path, f.Content, 0o644))
	}
}

func (p *Pop) find(phys int, name string) int {
	for i, f := range p.Files {
		if f.Phys == phys && f.Name == name {
			return i
		}
	}
	return -1
}

// Step applies one random change to the population (model and disk) and
// returns its description.
func (p *Pop) Step(r *rand.Rand) string {
	var exist []int
	for i := range p.Phys {
		if p.Exists[i] && i != p.Protect {
			exist = append(exist, i)
		}
	}
	forced := len(p.Force) > 0
	defer func() {
		if forced && len(p.Force) > 0 {
			p.Force = p.Force[1:]
		}
	}()
	for tries := 0; tries < 20; tries++ {
		op := r.Intn(8)
		if forced {
			op = p.Force[0]
		}
		switch op {
		case 0, 1: // add a file
			if len(exist) == 0 {
				continue
			}
			d := exist[r.Intn(len(exist))]
			name := specFileNames[r.Intn(len(specFileNames))]
			if p.find(d, name) >= 0 {
				continue
			}
			f := p.newValidFile(r, d, name)
			p.Files = append(p.Files, f)
			p.writeFile(f)
			return fmt.Sprintf("add %s", p.path(f))
		case 2: // rewrite a file with a new definition
			if len(p.Files) == 0 {
				continue
			}
			i := r.Intn(len(p.Files))
			if p.Files[i].HasTwin || p.Files[i].TwinOf != "" {
				continue // (linked pairs stay as they are)
			}
			old := p.Files[i]
			if !old.specNamed() {
				continue
			}
			f := p.newValidFile(r, old.Phys, old.Name)
			p.Files[i] = f
			p.writeFile(f)
			return fmt.Sprintf("rewrite %s", p.path(f))
		case 3: // remove a file
			if len(p.Files) == 0 {
				continue
			}
			i := r.Intn(len(p.Files))
			if p.Files[i].HasTwin || p.Files[i].TwinOf != "" {
				continue // (linked pairs stay as they are)
			}
			f := p.Files[i]
			if strings.Contains(f.Name, "/") {
				continue
			}
			must(os.Remove(p.path(f)))
			p.Files = append(p.Files[:i:i], p.Files[i+1:]...)
			return fmt.Sprintf("remove %s", p.path(f))
		case 4: // make a file invalid
			if len(p.Files) == 0 {
				continue
			}
			i := r.Intn(len(p.Files))
			if p.Files[i].HasTwin || p.Files[i].TwinOf != "" {
				continue // (linked pairs stay as they are)
			}
			old := p.Files[i]
			if !old.specNamed() {
				continue
			}
			f := p.newInvalidFile(r, old.Phys, old.Name)
			p.Files[i] = f
			p.writeFile(f)
			return fmt.Sprintf("corrupt(%s) %s", f.Kind, p.path(f))
		case 5: // rename a file within or across directories
			if len(p.Files) == 0 || len(exist) == 0 {
				continue
			}
			i := r.Intn(len(p.Files))
			if p.Files[i].HasTwin || p.Files[i].TwinOf != "" {
				continue // (linked pairs stay as they are)
			}
			f := p.Files[i]
			if strings.Contains(f.Name, "/") {
				continue
			}
			d := exist[r.Intn(len(exist))]
			name := specFileNames[r.Intn(len(specFileNames))]
			if chance(r, 25) || f.Kind == "fifo" || f.Kind == "linkdir" {
				// (a FIFO under a Spec name would block any reader: not a Spec file content question)
				name = "renamed.bak"
			}
			if p.find(d, name) >= 0 {
				continue
			}
			if f.Link != "" && d != f.Phys {
				// (a relative link moved to another directory would dangle at once, an absolute one
				// as soon as the directory holding its data goes away: not the case at hand)
				continue
			}
			oldPath := p.path(f)
			nf := *f
			nf.Phys, nf.Name = d, name
			must(os.Rename(oldPath, p.path(&nf)))
			p.Files[i] = &nf
			return fmt.Sprintf("rename %s -> %s", oldPath, p.path(&nf))
		case 6: // remove a whole directory
			if len(exist) < 2 || (!forced && !chance(r, 40)) {
				continue
			}
			d := exist[r.Intn(len(exist))]
			how := "rmdir"
			if chance(r, 40) || (forced && p.ForceRenameAway) {
				// the directory leaves by being renamed away, content and all
				how = "rename-dir-away"
				p.nmarker++
				must(os.Rename(p.Phys[d], filepath.Join(p.Root, fmt.Sprintf("gone-%d", p.nmarker))))
			} else {
				must(os.RemoveAll(p.Phys[d]))
			}
			p.Exists[d] = false
			var keep []*PFile
			for _, f := range p.Files {
				if f.Phys != d {
					keep = append(keep, f)
				}
			}
			p.Files = keep
			return fmt.Sprintf("%s %s", how, p.Phys[d])
		case 7: // create a missing directory with a file
			var missing []int
			for i := range p.Phys {
				if !p.Exists[i] {
					missing = append(missing, i)
				}
			}
			if len(missing) == 0 {
				continue
			}
			d := missing[r.Intn(len(missing))]
			must(os.MkdirAll(p.Phys[d], 0o755))
			p.Exists[d] = true
			f := p.newValidFile(r, d, specFileNames[r.Intn(len(specFileNames))])
			p.Files = append(p.Files, f)
			p.writeFile(f)
			return fmt.Sprintf("mkdir %s + %s", p.Phys[d], f.Name)
		}
	}
	return "noop"
}

// DropTwins removes the linked second names (for checks that rewrite files in place).
func (p *Pop) DropTwins() *Pop {
	var keep []*PFile
	for _, f := range p.Files {
		if f.TwinOf == "" {
			f.HasTwin = false
			keep = append(keep, f)
		}
	}
	p.Files = keep
	return p
}

// Resolve is M-RESOLVE.
func (p *Pop) Resolve() *Resolved {
	res := &Resolved{Devices: map[string]*Winner{}, VendorSpecs: map[string][]PathPrio{}, ErrPaths: map[string]bool{}, Conflicts: map[string]bool{}}
	type def struct {
		prio int
		f    *PFile
		dev  specs.Device
	}
	defs := map[string][]def{}
	vend, class := map[string]bool{}, map[string]bool{}
	seenPhys := map[int]bool{}
	for prio, phys := range p.ConfPhys {
		if seenPhys[phys] {
			res.HasRepeat = true
		}
		seenPhys[phys] = true
		if !p.Exists[phys] {
			res.HasMissing = true
			continue
		}
		if p.DirFault[phys] != "" {
			continue // cannot be scanned: contributes nothing
		}
		dir := filepath.Clean(p.Conf[prio])
		for _, f := range p.Files {
			if f.Phys != phys {
				continue
			}
			if !f.specNamed() {
				res.HasIgnored = true
				if f.Kind == "fifo" || f.Kind == "linkdir" {
					res.HasSpecial = true
				}
				continue
			}
			path := filepath.Join(dir, f.Name)
			if f.Kind == "linkdir" {
				// neither a Spec file nor a directory of ours: contributes nothing;
				// whether it is reported is not constrained
				res.HasIgnored = true
				continue
			}
			if f.Kind != "valid" {
				res.ErrPaths[path] = true
				res.HasInvalid = true
				continue
			}
			v, c := splitKind(f.Spec.Kind)
			vend[v], class[c] = true, true
			res.VendorSpecs[v] = append(res.VendorSpecs[v], PathPrio{path, prio})
			for _, d := range f.Spec.Devices {
				q := f.Spec.Kind + "=" + d.Name
				defs[q] = append(defs[q], def{prio, f, d})
			}
		}
	}
	var shape []string
	for q, ds := range defs {
		top := -1
		for _, d := range ds {
			if d.prio > top {
				top = d.prio
			}
		}
		var at []def
		per := map[int]int{}
		for _, d := range ds {
			per[d.prio]++
			if d.prio == top {
				at = append(at, d)
			}
		}
		for prio, n := range per {
			if n > 1 {
				for _, d := range ds {
					if d.prio == prio {
						res.Conflicts[filepath.Join(filepath.Clean(p.Conf[prio]), d.f.Name)] = true
					}
				}
				if prio == top {
					res.HasConflictTop = true
				} else {
					res.HasConflictBelow = true
				}
			}
		}
		if len(per) > 1 {
			res.HasShadow = true
		}
		if len(at) == 1 {
			res.Devices[q] = &Winner{Path: filepath.Join(filepath.Clean(p.Conf[top]), at[0].f.Name), Prio: top, Dev: at[0].dev, File: at[0].f}
		}
		var sig []string
		for prio, n := range per {
			sig = append(sig, fmt.Sprintf("%d:%d", prio, n))
		}
		sort.Strings(sig)
		shape = append(shape, strings.Join(sig, ","))
	}
	sort.Strings(shape)
	res.Shape = fmt.Sprintf("%d|%s|inv=%v|ign=%v|rep=%v|miss=%v", len(p.Conf), strings.Join(shape, ";"), res.HasInvalid, res.HasIgnored, res.HasRepeat, res.HasMissing)
	for v := range vend {
		res.Vendors = append(res.Vendors, v)
	}
	for c := range class {
		res.Classes = append(res.Classes, c)
	}
	sort.Strings(res.Vendors)
	sort.Strings(res.Classes)
	return res
}

func splitKind(kind string) (string, string) {
	i := strings.IndexByte(kind, '/')
	return kind[:i], kind[i+1:]
}

// Relist changes the configured directory list itself (the files stay): a
// permutation, possibly with one entry dropped or one repeated at the end. The
// configured entry of physical directory keep (if >= 0) is never dropped.
func (p *Pop) Relist(r *rand.Rand, keep int) string {
	n := len(p.Conf)
	perm := r.Perm(n)
	if n > 1 && r.Intn(3) == 0 {
		// a rotation or a swap of two entries: the most "nothing changed" looking ones
		perm = make([]int, n)
		for i := range perm {
			perm[i] = i
		}
		i, j := r.Intn(n), r.Intn(n)
		perm[i], perm[j] = perm[j], perm[i]
	}
	conf, phys := make([]string, 0, n+1), make([]int, 0, n+1)
	for _, i := range perm {
		conf, phys = append(conf, p.Conf[i]), append(phys, p.ConfPhys[i])
	}
	what := "permuted"
	switch r.Intn(6) {
	case 0:
		if len(conf) > 1 {
			k := r.Intn(len(conf))
			if phys[k] != keep {
				conf, phys = append(conf[:k:k], conf[k+1:]...), append(phys[:k:k], phys[k+1:]...)
				what = "permuted, one entry dropped"
			}
		}
	case 1:
		k := r.Intn(len(conf))
		conf, phys = append(conf, conf[k]), append(phys, phys[k])
		what = "permuted, one entry repeated at the end"
	}
	p.Conf, p.ConfPhys = conf, phys
	return fmt.Sprintf("reconfigure (%s): %v", what, conf)
}

func (p *Pop) Describe() map[string]any {
	files := map[string]string{}
	for _, f := range p.Files {
		files[p.path(f)] = f.Kind + ":" + string(f.Content)
	}
	return map[string]any{"configured_dirs": p.Conf, "files": files}
}

// queryTurn rotates which query is asked first (compareCache, cacheState).
var queryTurn atomic.Int64

// compareCache compares every query of the cache with the model. It returns
// a list of discrepancies (empty = agreement).
func compareCache(c *cdi.Cache, res *Resolved, checkErrKeys bool) []string {
	var bad []string
	var devs []string
	for q := range res.Devices {
		devs = append(devs, q)
	}
	sort.Strings(devs)
	// every query brings the cache up to date by itself: which group of queries comes
	// first changes from call to call, what they answer must not depend on it
	var groups []func()
	defer func() {}()
	groups = append(groups, func() {
		got := c.ListDevices()
		if strings.Join(got, " ") != strings.Join(devs, " ") {
			bad = append(bad, fmt.Sprintf("ListDevices = %v, model = %v", got, devs))
		}
	})
	groups = append(groups, func() {
		for _, q := range devs {
			d := c.GetDevice(q)
			w := res.Devices[q]
			if d == nil {
				bad = append(bad, fmt.Sprintf("GetDevice(%s) = nil, model resolves it to %s", q, w.Path))
				continue
			}
			if d.GetSpec().GetPath() != w.Path || d.GetSpec().GetPriority() != w.Prio {
				bad = append(bad, fmt.Sprintf("GetDevice(%s) from %s prio %d, model: %s prio %d", q, d.GetSpec().GetPath(), d.GetSpec().GetPriority(), w.Path, w.Prio))
			}
			if g, m := normJSON(d.Device), normJSON(w.Dev); g != m {
				bad = append(bad, fmt.Sprintf("GetDevice(%s) definition %s, model %s", q, g, m))
			}
			if d.GetQualifiedName() != q {
				bad = append(bad, fmt.Sprintf("GetDevice(%s).GetQualifiedName() = %s", q, d.GetQualifiedName()))
			}
		}
		// names that must not resolve
		for _, q := range []string{"vendor.com/gpu=nope", "nope.com/gpu=dev0", "vendor.com/gpu", "", "vendor.com/gpu=dev0x"} {
			if _, ok := res.Devices[q]; !ok && c.GetDevice(q) != nil {
				bad = append(bad, fmt.Sprintf("GetDevice(%q) resolves but no valid Spec defines it", q))
			}
		}
	})
	groups = append(groups, func() {
		if g := c.ListVendors(); strings.Join(g, " ") != strings.Join(res.Vendors, " ") {
			bad = append(bad, fmt.Sprintf("ListVendors = %v, model %v", g, res.Vendors))
		}
	})
	groups = append(groups, func() {
		if g := c.ListClasses(); strings.Join(g, " ") != strings.Join(res.Classes, " ") {
			bad = append(bad, fmt.Sprintf("ListClasses = %v, model %v", g, res.Classes))
		}
	})
	groups = append(groups, func() {
		for _, v := range append(append([]string{}, res.Vendors...), "nope.com") {
			var g, m []string
			for _, s := range c.GetVendorSpecs(v) {
				g = append(g, fmt.Sprintf("%s@%d", s.GetPath(), s.GetPriority()))
			}
			for _, pp := range res.VendorSpecs[v] {
				m = append(m, fmt.Sprintf("%s@%d", pp.Path, pp.Prio))
			}
			sort.Strings(g)
			sort.Strings(m)
			if strings.Join(g, " ") != strings.Join(m, " ") {
				bad = append(bad, fmt.Sprintf("GetVendorSpecs(%s) = %v, model %v", v, g, m))
			}
		}
	})
	turn := int(queryTurn.Add(1))
	for k := range groups {
		groups[(turn+k)%len(groups)]()
	}
	if len(bad) > 0 {
		bad = append(bad, fmt.Sprintf("(query group asked first in this comparison: %d of ListDevices, GetDevice, ListVendors, ListClasses, GetVendorSpecs)", turn%len(groups)))
	}
	if checkErrKeys {
		errs := c.GetErrors()
		for path := range res.ErrPaths {
			if len(errs[path]) == 0 {
				bad = append(bad, fmt.Sprintf("invalid Spec file %s has no entry in GetErrors()", path))
			}
		}
		for path := range errs {
			if !res.ErrPaths[path] && !res.Conflicts[path] {
				bad = append(bad, fmt.Sprintf("GetErrors() has an entry for %s which is neither invalid nor part of a conflict: %v", path, errs[path]))
			}
		}
	}
	return bad
}
