package main

// C06 — minimum required CDI version is exact and placement independent.
// Exhaustive enumeration (within bounds) of feature subsets x placements x
// device permutations x declared versions, compared with M-VERSION.

import (
	"fmt"
	"os"
	"path/filepath"
	"strings"

	"tags.cncf.io/container-device-interface/pkg/cdi"
	specs "tags.cncf.io/container-device-interface/specs-go"
)

func init() { register("C06", checkC06) }

type c06Feature struct {
	name      string
	version   string
	specLevel bool // may be placed at spec level
	devLevel  bool // may be placed in a device
}

var c06Features = []c06Feature{
	{"mountType", "0.4.0", true, true},
	{"hostPath", "0.5.0", true, true},
	{"digitName", "0.5.0", false, true},
	{"annotations", "0.6.0", true, true},
	{"dottedClass", "0.6.0", true, false},
	{"intelRdt", "0.7.0", true, true},
	{"additionalGids", "0.7.0", true, true},
}

// place[f] = -1 unused, 0 spec level, k>0 device k-1
// variant selects among equivalent realisations of each used feature (other
// values, other element positions): the required version must not depend on it.
func c06Build(n int, place []int, variant int) *specs.Spec {
	pick := func(f, k int) int { return (variant/(f+1) + f) % k }
	s := &specs.Spec{Version: "1.0.0", Kind: "vendor.com/cls"}
	for i := 0; i < n; i++ {
		s.Devices = append(s.Devices, specs.Device{Name: fmt.Sprintf("d%d", i), ContainerEdits: specs.ContainerEdits{Env: []string{fmt.Sprintf("D%d=1", i)}}})
	}
	edits := func(pl int) *specs.ContainerEdits {
		if pl == 0 {
			return &s.ContainerEdits
		}
		return &s.Devices[pl-1].ContainerEdits
	}
	for f, pl := range place {
		if pl < 0 {
			continue
		}
		switch c06Features[f].name {
		case "mountType":
			e := edits(pl)
			// a mount without type first: the typed one is not the first element
			typed := &specs.Mount{HostPath: "/h", ContainerPath: "/c", Type: []string{"tmpfs", "bind", "none", " "}[pick(f, 4)]}
			if pick(f, 3) == 2 {
				e.Mounts = append(e.Mounts, typed, &specs.Mount{HostPath: "/h0", ContainerPath: "/c0"})
			} else {
				e.Mounts = append(e.Mounts, &specs.Mount{HostPath: "/h0", ContainerPath: "/c0"}, typed)
			}
		case "hostPath":
			e := edits(pl)
			e.DeviceNodes = append(e.DeviceNodes, &specs.DeviceNode{Path: "/dev/x0", Type: "c", Major: 1}, &specs.DeviceNode{Path: "/dev/x", HostPath: []string{"/dev/null", "/dev/x", "x", " "}[pick(f, 4)]})
		case "digitName":
			// every leading digit 0..9, alone or followed by more
			s.Devices[pl-1].Name = fmt.Sprintf([]string{"%dd", "%d", "%d0", "%d.x-y"}[pick(f, 4)], (variant/4+pl)%10)
			for i := range s.Devices {
				if i != pl-1 && s.Devices[i].Name == s.Devices[pl-1].Name {
					s.Devices[pl-1].Name += "x"
				}
			}
		case "annotations":
			m := []map[string]string{{"k": "v"}, {"k": ""}, {"a.b/c": "v", "d": "w"}}[pick(f, 3)]
			if pl == 0 {
				s.Annotations = m
			} else {
				s.Devices[pl-1].Annotations = m
			}
		case "dottedClass":
			s.Kind = "vendor.com/" + []string{"cls.x", "c.d.e", "a.b", "x.0"}[pick(f, 4)]
		case "intelRdt":
			edits(pl).IntelRdt = []*specs.IntelRdt{{ClosID: "c"}, {L3CacheSchema: "L3:0=f"}, {MemBwSchema: "MB:0=20"}, {EnableCMT: true}}[pick(f, 4)]
		case "additionalGids":
			// a gid of 0 is ignored when the edits are applied, it is still a use of the field
			edits(pl).AdditionalGIDs = [][]uint32{{7}, {0}, {0, 0}, {0, 5}, {4294967295}}[pick(f, 5)]
		}
	}
	return s
}

func c06Model(place []int) string {
	min := 0
	for f, pl := range place {
		if pl >= 0 {
			if i := verIdx(c06Features[f].version); i > min {
				min = i
			}
		}
	}
	return releasedVersions[min]
}

var c06Declared = []string{"0.3.0", "0.4.0", "0.5.0", "0.6.0", "0.7.0", "0.8.0", "1.0.0", "0.1.0", "0.2.0", "0.9.0", "1.1.0", "2.0.0", "", "1.0", "1", "01.0.0", "0.3.0 ", " 0.3.0", "1.0.0-rc1", "0.5.0+x", "0.3", "x", "0.3.0.0", "1.0.00", "0.10.0"}
var c06Unspecified = []string{"v0.3.0", "v0.5.0", "v0.7.0", "v1.0.0"}

func permutations(n int) [][]int {
	if n == 1 {
		return [][]int{{0}}
	}
	var out [][]int
	for _, p := range permutations(n - 1) {
		for i := 0; i <= len(p); i++ {
			q := append(append(append([]int{}, p[:i]...), n-1), p[i:]...)
			out = append(out, q)
		}
	}
	return out
}

type acceptAllValidator struct{}

func (acceptAllValidator) Validate(*specs.Spec) error { return nil }

func checkC06(c *Ctx) {
	maxN := c.pick(3, 4)
	c.Rule = fmt.Sprintf("exhaustive: every subset of the 7 version-gated features x every placement (spec level or device k of n, n=1..%d) x every device permutation x %d declared version strings; ReadSpec on files for a 1/%d sample; distinct_nontrivial = distinct (n, placement vector) combinations with at least one feature in a non-last device or with >=2 features of different versions", maxN, len(c06Declared), c.pick(16, 4))
	c.Assume("M-VERSION transcribes the feature table of the property statement", "declared versions with a leading 'v' are unspecified by the property: observed and counted, never judged")
	dir := filepath.Join(c.Scratch, "files")
	must(os.MkdirAll(dir, 0o755))
	// size is no excuse: a YAML file of more than a MiB whose only version-gated feature
	// sits in its last device
	{
		big := &specs.Spec{Version: "0.3.0", Kind: "vendor.com/cls"}
		filler := strings.Repeat("x", 2000)
		for n := 0; n < 700; n++ {
			big.Devices = append(big.Devices, specs.Device{Name: fmt.Sprintf("d%d", n), ContainerEdits: specs.ContainerEdits{Env: []string{"F=" + filler}}})
		}
		big.Devices = append(big.Devices, specs.Device{Name: "last", ContainerEdits: specs.ContainerEdits{DeviceNodes: []*specs.DeviceNode{{Path: "/dev/x", HostPath: "/dev/null"}}}})
		for _, enc := range []string{"yaml", "json"} {
			for di, decl := range []string{"0.3.0", "0.4.0", "0.5.0"} {
				big.Version = decl
				path := filepath.Join(dir, "big."+enc)
				must(os.WriteFile(path, specBytes(big, enc), 0o644))
				_, rerr := cdi.ReadSpec(path, 0)
				c.Count("readspec_files_of_more_than_a_mib", 1)
				if (rerr == nil) != (di == 2) {
					c.violation("big-file", "readspec", map[string]string{"declared": decl, "enc": enc}, fmt.Sprintf("ReadSpec of a %s file of more than a MiB declaring %s whose last device uses hostPath (0.5.0): err=%v", enc, decl, rerr), nil)
				}
				os.Remove(path)
			}
		}
	}
	// one case per (n, first-feature placement) to parallelise
	var names []string
	for n := 1; n <= maxN; n++ {
		for p0 := -1; p0 <= n; p0++ {
			for p1 := -1; p1 <= n; p1++ {
				names = append(names, fmt.Sprintf("enum:%d.%d.%d", n, p0, p1))
			}
		}
	}
	sampleEvery := c.pick(16, 4)
	// second pass ("v:" cases): the same enumeration with an accepting external Spec
	// validator installed, as the cdi tool always has one: what an external
	// validator says never replaces the version rule
	all := append([]string{}, names...)
	for _, nm := range names {
		all = append(all, "v:"+nm)
	}
	installed := false
	defer func() { cdi.SetSpecValidator(nil) }()
	c.RunNamed(all, 0, func(cs *Case) {
		var n, p0, p1 int
		if strings.HasPrefix(cs.Name, "v:") {
			c.mu.Lock()
			if !installed {
				// (cases are handed out in order: every case of the first pass has been taken by now;
				// the validator accepts everything, so it cannot change what the first pass expects)
				cdi.SetSpecValidator(acceptAllValidator{})
				installed = true
			}
			c.mu.Unlock()
			c.Count("cases_with_external_validator_installed", 1)
		}
		fmt.Sscanf(strings.TrimPrefix(cs.Name, "v:"), "enum:%d.%d.%d", &n, &p0, &p1)
		// files that spell out members with nothing in them and declare the oldest version
		for i, doc := range []string{
			`{"cdiVersion":"0.3.0","kind":"vendor.com/cls","annotations":{},"containerEdits":{},"devices":[{"name":"d0","annotations":{},"containerEdits":{"env":["A=1"],"additionalGids":[],"mounts":[],"deviceNodes":[],"hooks":[]}}]}`,
			"cdiVersion: 0.3.0\nkind: vendor.com/cls\nannotations: {}\ncontainerEdits: {}\ndevices:\n- name: d0\n  annotations: {}\n  containerEdits:\n    env: [\"A=1\"]\n    additionalGids: []\n    mounts: []\n    deviceNodes: []\n    hooks: []\n",
		} {
			path := filepath.Join(dir, sanitize(cs.Name)+"-empty-members."+[]string{"json", "yaml"}[i])
			must(os.WriteFile(path, []byte(doc), 0o644))
			_, rerr := cdi.ReadSpec(path, 0)
			c.Count("readspec_empty_members", 1)
			if rerr != nil {
				cs.Violation("readspec", map[string]string{"declared": "0.3.0", "empty_members": "true"}, fmt.Sprintf("ReadSpec of a document declaring 0.3.0 whose only extras are empty members (annotations: {}, additionalGids: [], ...): %v", rerr), map[string]any{"file": doc})
				return
			}
		}
		perms := permutations(n)
		place := make([]int, len(c06Features))
		place[0], place[1] = p0, p1
		var count, nontrivial, featNonLast int
		// one long-lived Spec object whose content is replaced wholesale before every
		// query: the answer must depend on the content only, not on earlier queries
		reused := &specs.Spec{}
		var prevFresh *specs.Spec
		var rec func(f int)
		rec = func(f int) {
			if f == len(c06Features) {
				count++
				s := c06Build(n, place, count)
				want := c06Model(place)
				wit := func() map[string]any {
					return map[string]any{"n_devices": n, "placement": append([]int{}, place...), "features": c06Features, "spec": s}
				}
				var got string
				if pv, st := guard(func() { got, _ = specs.MinimumRequiredVersion(s) }); pv != nil {
					cs.Violation("panic", nil, fmt.Sprintf("MinimumRequiredVersion panics: %v", pv), map[string]any{"w": wit(), "stack": st})
					return
				}
				nonLast, kinds := false, map[string]bool{}
				for ff, pl := range place {
					if pl >= 0 {
						kinds[c06Features[ff].version] = true
						if pl > 0 && pl < n {
							nonLast = true
						}
					}
				}
				if nonLast || len(kinds) > 1 {
					nontrivial++
				}
				if nonLast {
					featNonLast++
				}
				if got != want {
					cs.Violation("minimum", map[string]string{"want": want, "got": got}, fmt.Sprintf("MinimumRequiredVersion = %s, features used require %s (n=%d placement=%v)", got, want, n, place), wit())
					return
				}
				// every realisation of every feature that is in use (see c06Build: feature f
				// takes its variant from variant/(f+1))
				for f, pl := range place {
					if pl < 0 {
						continue
					}
					nplaced := 0
					for _, q := range place {
						if q >= 0 {
							nplaced++
						}
					}
					for j := 0; j < 5; j++ {
						vs := c06Build(n, place, j*(f+1))
						if nplaced == 1 && verIdx(want) > 0 {
							// the one feature alone decides: through the file reader too, declared
							// exactly what it needs and one release less
							for di, decl := range []string{want, releasedVersions[verIdx(want)-1]} {
								fs := cloneSpec(vs)
								fs.Version = decl
								enc := []string{"json", "yaml"}[(j+di+count)%2]
								path := filepath.Join(dir, sanitize(cs.Name)+"-one."+enc)
								must(os.WriteFile(path, specBytes(fs, enc), 0o644))
								_, rerr := cdi.ReadSpec(path, 0)
								c.Count("readspec_single_feature", 1)
								if (rerr == nil) != (di == 0) {
									cs.Violation("readspec", map[string]string{"declared": decl}, fmt.Sprintf("ReadSpec(%s, declared %s, only feature %s in realisation %d, required %s): err=%v", enc, decl, c06Features[f].name, j, want, rerr), map[string]any{"file": string(specBytes(fs, enc)), "placement": append([]int{}, place...)})
									return
								}
							}
						}
						if g, _ := specs.MinimumRequiredVersion(vs); g != want {
							cs.Violation("minimum", map[string]string{"want": want, "got": g}, fmt.Sprintf("MinimumRequiredVersion = %s, features used require %s (n=%d placement=%v, realisation %d of feature %s)", g, want, n, place, j, c06Features[f].name), map[string]any{"n_devices": n, "placement": append([]int{}, place...), "spec": vs})
							return
						}
					}
				}
				// a device name starting with any of the ten digits is the same feature
				for f, pl := range place {
					if c06Features[f].name != "digitName" || pl <= 0 {
						continue
					}
					for dg := 0; dg < 10; dg++ {
						ds := *s
						ds.Devices = append([]specs.Device{}, s.Devices...)
						ds.Devices[pl-1].Name = fmt.Sprintf("%dq%d", dg, count%3)
						if g, _ := specs.MinimumRequiredVersion(&ds); g != want {
							cs.Violation("minimum", map[string]string{"want": want, "got": g}, fmt.Sprintf("MinimumRequiredVersion = %s with device %d named %q, features used require %s (n=%d placement=%v)", g, pl-1, ds.Devices[pl-1].Name, want, n, place), wit())
							return
						}
						ds.Version = want
						if err := specs.ValidateVersion(&ds); err != nil {
							cs.Violation("validate", nil, fmt.Sprintf("ValidateVersion(declared %s = required) with device named %q: %v", want, ds.Devices[pl-1].Name, err), wit())
							return
						}
					}
				}
				// what a device is called (unless it starts with a digit) says nothing about
				// the features it uses: nameless and oddly named devices count like any other
				for k := 0; k < n; k++ {
					if nm := s.Devices[k].Name; len(nm) > 0 && '0' <= nm[0] && nm[0] <= '9' {
						continue
					}
					for _, nm := range []string{"", "-", ".", "/", "\x00", "\u00e9", " 1", "d 9"} {
						ds := *s
						ds.Devices = append([]specs.Device{}, s.Devices...)
						ds.Devices[k].Name = nm
						var g string
						if pv, st := guard(func() { g, _ = specs.MinimumRequiredVersion(&ds) }); pv != nil {
							cs.Violation("panic", nil, fmt.Sprintf("MinimumRequiredVersion panics with device %d named %q: %v", k, nm, pv), map[string]any{"w": wit(), "stack": st})
							return
						}
						c.Count("queries_with_odd_device_names", 1)
						if g != want {
							cs.Violation("minimum", map[string]string{"want": want, "got": g, "name": nm}, fmt.Sprintf("MinimumRequiredVersion = %s with device %d named %q, features used require %s (n=%d placement=%v)", g, k, nm, want, n, place), wit())
							return
						}
					}
				}
				// members that are there but empty use no feature: an empty annotations object,
				// empty lists of edits and of additional GIDs, at Spec level and in every device
				{
					ns := cloneSpec(s)
					deco := func(e *specs.ContainerEdits) {
						if e.Env == nil {
							e.Env = []string{}
						}
						if e.DeviceNodes == nil {
							e.DeviceNodes = []*specs.DeviceNode{}
						}
						if e.Hooks == nil {
							e.Hooks = []*specs.Hook{}
						}
						if e.Mounts == nil {
							e.Mounts = []*specs.Mount{}
						}
						if e.AdditionalGIDs == nil {
							e.AdditionalGIDs = []uint32{}
						}
						for _, m := range e.Mounts {
							if m.Options == nil {
								m.Options = []string{}
							}
						}
					}
					if ns.Annotations == nil {
						ns.Annotations = map[string]string{}
					}
					deco(&ns.ContainerEdits)
					for i := range ns.Devices {
						if ns.Devices[i].Annotations == nil {
							ns.Devices[i].Annotations = map[string]string{}
						}
						deco(&ns.Devices[i].ContainerEdits)
					}
					g, _ := specs.MinimumRequiredVersion(ns)
					c.Count("queries_with_empty_members", 1)
					if g != want {
						cs.Violation("minimum", map[string]string{"want": want, "got": g, "empty_members": "true"}, fmt.Sprintf("MinimumRequiredVersion = %s once empty annotation objects and empty lists are added, the features used still require %s (n=%d placement=%v)", g, want, n, place), map[string]any{"w": wit(), "spec_with_empty_members": ns})
						return
					}
				}
				{
					fresh := cloneSpec(s)
					// two queries of the same object back to back, its content replaced in
					// between by a new device slice of the same length (nothing else is
					// inspected in between on this goroutine)
					if prevFresh != nil && len(prevFresh.Devices) == len(fresh.Devices) {
						reused.Version, reused.Kind, reused.Annotations, reused.ContainerEdits = prevFresh.Version, prevFresh.Kind, prevFresh.Annotations, prevFresh.ContainerEdits
						reused.Devices = prevFresh.Devices
						specs.MinimumRequiredVersion(reused)
					}
					prevFresh = cloneSpec(s)
					reused.Version, reused.Kind, reused.Annotations, reused.ContainerEdits = fresh.Version, fresh.Kind, fresh.Annotations, fresh.ContainerEdits
					reused.Devices = fresh.Devices // a new slice of the same length as the previous one
					g, _ := specs.MinimumRequiredVersion(reused)
					verr := specs.ValidateVersion(reused)
					c.Count("queries_on_reused_spec_object", 1)
					if g != want || (verr == nil) != (verIdx(reused.Version) >= verIdx(want)) {
						cs.Violation("history-dependent", map[string]string{"want": want, "got": g}, fmt.Sprintf("on a Spec object that was queried before with other content: MinimumRequiredVersion = %s (ValidateVersion err=%v), the features now in it require %s (n=%d placement=%v)", g, verr, want, n, place), wit())
						return
					}
				}
				// permutation invariance
				for _, pm := range perms[1:] {
					ps := *s
					ps.Devices = make([]specs.Device, n)
					for i, j := range pm {
						ps.Devices[i] = s.Devices[j]
					}
					if g, _ := specs.MinimumRequiredVersion(&ps); g != want {
						cs.Violation("permutation", nil, fmt.Sprintf("MinimumRequiredVersion changes from %s to %s when devices are reordered %v", want, g, pm), map[string]any{"w": wit(), "permutation": pm})
						return
					}
				}
				// declared versions
				for _, decl := range c06Declared {
					ds := *s
					ds.Version = decl
					valid := verIdx(decl) >= 0 && verIdx(decl) >= verIdx(want)
					var err error
					if pv, st := guard(func() { err = specs.ValidateVersion(&ds) }); pv != nil {
						cs.Violation("panic", nil, fmt.Sprintf("ValidateVersion panics: %v", pv), map[string]any{"w": wit(), "declared": decl, "stack": st})
						return
					}
					if (err == nil) != valid {
						cs.Violation("validate", map[string]string{"declared": decl}, fmt.Sprintf("ValidateVersion(declared %q, required %s) err=%v, expected valid=%v", decl, want, err, valid), map[string]any{"w": wit(), "declared": decl})
						return
					}
				}
				for _, decl := range c06Unspecified {
					ds := *s
					ds.Version = decl
					if specs.ValidateVersion(&ds) == nil {
						c.Count("unspecified_v_prefixed_accepted", 1)
					} else {
						c.Count("unspecified_v_prefixed_rejected", 1)
					}
				}
				// through the file reader, in both encodings
				if count%sampleEvery == 0 {
					for _, decl := range []string{want, releasedVersions[(verIdx(want)+len(releasedVersions)-1)%len(releasedVersions)], "1.0.0"} {
						ds := cloneSpec(s)
						ds.Version = decl
						valid := verIdx(decl) >= verIdx(want)
						enc := []string{"json", "yaml"}[count/sampleEvery%2]
						path := filepath.Join(dir, sanitize(cs.Name)+"."+enc)
						must(os.WriteFile(path, specBytes(ds, enc), 0o644))
						var err error
						if pv, st := guard(func() { _, err = cdi.ReadSpec(path, 0) }); pv != nil {
							cs.Violation("panic", nil, fmt.Sprintf("ReadSpec panics: %v", pv), map[string]any{"w": wit(), "declared": decl, "stack": st})
							return
						}
						c.Count("readspec_checked", 1)
						if (err == nil) != valid {
							cs.Violation("readspec", map[string]string{"declared": decl}, fmt.Sprintf("ReadSpec(%s, declared %s, required %s): err=%v, expected valid=%v", enc, decl, want, err, valid), map[string]any{"w": wit(), "declared": decl, "file": string(specBytes(ds, enc))})
							return
						}
					}
				}
				return
			}
			if f < 2 {
				ft := c06Features[f]
				if (place[f] == 0 && !ft.specLevel) || (place[f] > 0 && !ft.devLevel) {
					return
				}
				rec(f + 1)
				return
			}
			ft := c06Features[f]
			place[f] = -1
			rec(f + 1)
			if ft.specLevel {
				place[f] = 0
				rec(f + 1)
			}
			if ft.devLevel {
				for k := 1; k <= n; k++ {
					place[f] = k
					rec(f + 1)
				}
			}
			place[f] = -1
		}
		rec(0)
		c.AddEvaluations(count - 1)
		c.Count("specs_enumerated", count)
		c.Count("specs_feature_in_non_last_device", featNonLast)
		c.mu.Lock()
		c.distinctOverride += nontrivial
		c.mu.Unlock()
	})
	c.Extra("exhaustive", true)
	c.Extra("exhaustive_bound", fmt.Sprintf("all 128 feature subsets, all placements, n<=%d devices, all permutations", maxN))
	c.Sample(3, map[string]any{"n_devices": 2, "placement": "mountType in device 1 of 2, nothing else", "expected_minimum": "0.4.0", "spec": c06Build(2, []int{1, -1, -1, -1, -1, -1, -1}, 0)})
	c.Sample(3, map[string]any{"n_devices": 3, "placement": "hostPath in device 2 of 3, annotations at spec level", "expected_minimum": "0.6.0", "declared_tried": strings.Join(c06Declared, "|")})
	c.Floor("specs_feature_in_non_last_device", 100)
	c.Floor("readspec_checked", 100)
	c.Floor("cases_with_external_validator_installed", 10)
}
