package main

// G-SPEC: generator of well-formed CDI Specs with attributable markers,
// conversion to the harness's own document tree, and M-VERSION.

import (
	"encoding/json"
	"fmt"
	"math/rand"
	"os"
	"sort"
	"strings"

	specs "tags.cncf.io/container-device-interface/specs-go"
)

var releasedVersions = []string{"0.3.0", "0.4.0", "0.5.0", "0.6.0", "0.7.0", "0.8.0", "1.0.0"}

func verIdx(v string) int {
	for i, x := range releasedVersions {
		if x == v {
			return i
		}
	}
	return -1
}

// mMinVersion is M-VERSION: the highest introduction version among the
// features used anywhere in the Spec (written from the property statement C06).
func mMinVersion(s *specs.Spec) string {
	min := 0
	up := func(v string) {
		if i := verIdx(v); i > min {
			min = i
		}
	}
	edits := func(e *specs.ContainerEdits) {
		for _, m := range e.Mounts {
			if m != nil && m.Type != "" {
				up("0.4.0")
			}
		}
		for _, d := range e.DeviceNodes {
			if d != nil && d.HostPath != "" {
				up("0.5.0")
			}
		}
		if e.IntelRdt != nil || len(e.AdditionalGIDs) > 0 {
			up("0.7.0")
		}
	}
	edits(&s.ContainerEdits)
	if len(s.Annotations) > 0 {
		up("0.6.0")
	}
	if i := strings.IndexByte(s.Kind, '/'); i >= 0 && strings.Contains(s.Kind[i+1:], ".") {
		up("0.6.0")
	}
	for i := range s.Devices {
		d := &s.Devices[i]
		edits(&d.ContainerEdits)
		if len(d.Name) > 0 && d.Name[0] >= '0' && d.Name[0] <= '9' {
			up("0.5.0")
		}
		if len(d.Annotations) > 0 {
			up("0.6.0")
		}
	}
	return releasedVersions[min]
}

type SpecGen struct {
	Vendor, Class string
	Marker        string                                  // unique per Spec file; every edit element carries it
	DevNames      []string                                // device names (default: 1..4 generated names)
	NoSpecEdits   bool                                    // never generate spec-level edits
	Plain         bool                                    // only env/mount/hook edits (no host lookups, no version-gated features)
	HostNodes     []HostNode                              // existing host device nodes (types b/c/p) usable for nodes without explicit type
	Version       string                                  // declared version ("" = random valid one)
	Str           func(r *rand.Rand, field string) string // optional string source for free-text fields
}

var hookNames = []string{"prestart", "createRuntime", "createContainer", "startContainer", "poststart", "poststop"}

func u32p(v uint32) *uint32 { return &v }
func intp(v int) *int       { return &v }

func fmode(v uint32) *os.FileMode { m := os.FileMode(v); return &m }

// genEdits generates container edits; if nonEmpty at least one element is present.
func genEdits(r *rand.Rand, g *SpecGen, marker string, nonEmpty bool) specs.ContainerEdits {
	var e specs.ContainerEdits
	str := func(field, def string) string {
		if g.Str != nil {
			return g.Str(r, field)
		}
		return def
	}
	for tries := 0; ; tries++ {
		if chance(r, 60) || (nonEmpty && tries > 0) {
			n := 1 + r.Intn(3)
			for i := 0; i < n; i++ {
				e.Env = append(e.Env, fmt.Sprintf("M_%s_%d=%s", strings.ToUpper(sanitize(marker)), i, str("env", fmt.Sprintf("v%d", r.Intn(100)))))
			}
		}
		if chance(r, 25) {
			// a variable every Spec and device may set, each to a value of its own
			e.Env = append(e.Env, "SHARED_MODE="+strings.ToLower(sanitize(marker)))
		}
		if chance(r, 45) {
			n := 1 + r.Intn(2)
			for i := 0; i < n; i++ {
				m := &specs.Mount{HostPath: str("mountHost", "/host/"+marker), ContainerPath: fmt.Sprintf("/mnt/%s/%d", marker, i)}
				if chance(r, 15) {
					// valid, but not in its shortest spelling
					m.ContainerPath += pickStr(r, "/", "/.", "//", fmt.Sprintf("/../%d", i), "/./")
				}
				if chance(r, 50) {
					m.Options = []string{"ro", str("mountOpt", "nosuid")}[:1+r.Intn(2)]
				}
				if !g.Plain && chance(r, 35) {
					m.Type = str("mountType", "bind")
				}
				e.Mounts = append(e.Mounts, m)
			}
		}
		if chance(r, 45) {
			n := 1 + r.Intn(2)
			for i := 0; i < n; i++ {
				h := &specs.Hook{HookName: hookNames[r.Intn(len(hookNames))], Path: fmt.Sprintf("/hook/%s/%d", marker, i)}
				if chance(r, 50) {
					h.Args = []string{"hook", str("hookArg", "arg-"+marker)}
				}
				if chance(r, 40) {
					h.Env = []string{"H=" + str("hookEnv", marker)}
				}
				if chance(r, 40) {
					h.Timeout = intp([]int{0, 1, 30, 2147483647}[r.Intn(4)])
				}
				e.Hooks = append(e.Hooks, h)
			}
		}
		if !g.Plain && chance(r, 45) {
			n := 1 + r.Intn(2)
			for i := 0; i < n; i++ {
				d := &specs.DeviceNode{Path: fmt.Sprintf("/dev/%s-%d", marker, i)}
				switch {
				case len(g.HostNodes) > 0 && chance(r, 60):
					// info to be taken from a host node
					h := g.HostNodes[r.Intn(len(g.HostNodes))]
					switch r.Intn(7) {
					case 4:
						// the host path spelled out although it is the container path
						d.Path, d.HostPath = h.Path, h.Path
					case 0:
						d.HostPath = h.Path
					case 1:
						d.HostPath, d.Type = h.Path, h.Type
					case 2:
						// the numbers given, the type left to the host node
						d.HostPath, d.Major, d.Minor = h.Path, int64(1+r.Intn(250)), int64(r.Intn(250))
					case 3:
						// only a minor given: type and numbers left to the host node
						d.HostPath, d.Minor = h.Path, int64(1+r.Intn(250))
					default:
						// the usual case: container path = host path, nothing else given
						d.Path = h.Path
					}
				default:
					d.Type = pickStr(r, "c", "b", "p", "c")
					d.Major = int64(1 + r.Intn(250))
					d.Minor = int64(r.Intn(250))
					if d.Type == "p" {
						d.Major, d.Minor = 0, 0
					}
				}
				if chance(r, 40) {
					d.Permissions = pickStr(r, "r", "rw", "rwm", "m", "w")
				}
				if chance(r, 30) {
					d.FileMode = fmode(uint32([]int{0o600, 0o660, 0o666, 0, 0o20666 /* S_IFCHR|0666 as stat reports it */, 0o7777, 0o100644, 1 << 31}[r.Intn(8)]))
				}
				if chance(r, 30) {
					d.UID = u32p(uint32(r.Intn(3) * 1000))
				}
				if chance(r, 30) {
					d.GID = u32p(uint32(r.Intn(3) * 1000))
				}
				e.DeviceNodes = append(e.DeviceNodes, d)
			}
		}
		if !g.Plain && chance(r, 15) {
			e.IntelRdt = &specs.IntelRdt{ClosID: str("closID", "clos-"+marker), L3CacheSchema: pickStr(r, "", "L3:0=f"), MemBwSchema: pickStr(r, "", "MB:0=50"), EnableCMT: chance(r, 50), EnableMBM: chance(r, 30)}
		}
		if !g.Plain && chance(r, 20) {
			n := 1 + r.Intn(3)
			for i := 0; i < n; i++ {
				e.AdditionalGIDs = append(e.AdditionalGIDs, uint32([]int{0, 5, 44, 1000, 4294967295}[r.Intn(5)]))
			}
		}
		if !nonEmpty || !editsEmpty(&e) {
			return e
		}
	}
}

func editsEmpty(e *specs.ContainerEdits) bool {
	return len(e.Env) == 0 && len(e.DeviceNodes) == 0 && len(e.Hooks) == 0 && len(e.Mounts) == 0 && e.IntelRdt == nil && len(e.AdditionalGIDs) == 0
}

func genDevName(r *rand.Rand, i int) string {
	switch r.Intn(6) {
	case 0:
		return fmt.Sprintf("dev%d", i)
	case 1:
		return fmt.Sprintf("%d", i) // digit start (0.5.0)
	case 2:
		return fmt.Sprintf("d-%d_x.y:%d", i, i)
	case 3:
		return string(rune('a' + i))
	default:
		return fmt.Sprintf("gpu%d", i)
	}
}

func genAnnotations(r *rand.Rand, marker string) map[string]string {
	n := 1 + r.Intn(2)
	m := map[string]string{}
	keys := []string{"note", "vendor.example.com/origin", "A.b-c_d", "x", "example.io/Long-Name.1"}
	for i := 0; i < n; i++ {
		m[keys[r.Intn(len(keys))]] = "ann-" + marker
	}
	return m
}

func genSpec(r *rand.Rand, g SpecGen) *specs.Spec {
	if g.Vendor == "" {
		g.Vendor = pickStr(r, "vendor.com", "v", "acme-1.io", "V_x.org")
	}
	if g.Class == "" {
		g.Class = pickStr(r, "gpu", "c", "net-dev", "class_1")
		if !g.Plain && chance(r, 15) {
			g.Class = "a.b" // dotted class (0.6.0)
		}
	}
	s := &specs.Spec{Kind: g.Vendor + "/" + g.Class}
	names := g.DevNames
	if names == nil {
		n := 1 + r.Intn(4)
		seen := map[string]bool{}
		for i := 0; len(names) < n; i++ {
			nm := genDevName(r, i)
			if g.Plain {
				nm = fmt.Sprintf("dev%d", i)
			}
			if !seen[nm] {
				seen[nm] = true
				names = append(names, nm)
			}
		}
	}
	if !g.NoSpecEdits && chance(r, 60) {
		s.ContainerEdits = genEdits(r, &g, g.Marker+"-S", false)
	}
	if !g.Plain && chance(r, 25) {
		s.Annotations = genAnnotations(r, g.Marker)
	}
	for i, nm := range names {
		d := specs.Device{Name: nm, ContainerEdits: genEdits(r, &g, fmt.Sprintf("%s-D%d", g.Marker, i), true)}
		if !g.Plain && chance(r, 20) {
			d.Annotations = genAnnotations(r, g.Marker)
		}
		s.Devices = append(s.Devices, d)
	}
	s.Version = g.Version
	if s.Version == "" {
		min := verIdx(mMinVersion(s))
		s.Version = releasedVersions[min+r.Intn(len(releasedVersions)-min)]
	}
	return s
}

// ---- Spec -> document tree (mirrors the json/yaml tags incl. omitempty) ----

func strList(xs []string) []any {
	out := make([]any, len(xs))
	for i, x := range xs {
		out[i] = x
	}
	return out
}

func annDoc(a map[string]string) *OMap {
	keys := make([]string, 0, len(a))
	for k := range a {
		keys = append(keys, k)
	}
	sort.Strings(keys)
	m := &OMap{}
	for _, k := range keys {
		m.Add(k, a[k])
	}
	return m
}

func editsDoc(e *specs.ContainerEdits) *OMap {
	m := &OMap{}
	if len(e.Env) > 0 {
		m.Add("env", strList(e.Env))
	}
	if len(e.DeviceNodes) > 0 {
		var l []any
		for _, d := range e.DeviceNodes {
			if d == nil {
				l = append(l, nil)
				continue
			}
			n := om("path", d.Path)
			if d.HostPath != "" {
				n.Add("hostPath", d.HostPath)
			}
			if d.Type != "" {
				n.Add("type", d.Type)
			}
			if d.Major != 0 {
				n.Add("major", d.Major)
			}
			if d.Minor != 0 {
				n.Add("minor", d.Minor)
			}
			if d.FileMode != nil {
				n.Add("fileMode", uint32(*d.FileMode))
			}
			if d.Permissions != "" {
				n.Add("permissions", d.Permissions)
			}
			if d.UID != nil {
				n.Add("uid", *d.UID)
			}
			if d.GID != nil {
				n.Add("gid", *d.GID)
			}
			l = append(l, n)
		}
		m.Add("deviceNodes", l)
	}
	if len(e.Hooks) > 0 {
		var l []any
		for _, h := range e.Hooks {
			if h == nil {
				l = append(l, nil)
				continue
			}
			n := om("hookName", h.HookName, "path", h.Path)
			if len(h.Args) > 0 {
				n.Add("args", strList(h.Args))
			}
			if len(h.Env) > 0 {
				n.Add("env", strList(h.Env))
			}
			if h.Timeout != nil {
				n.Add("timeout", int64(*h.Timeout))
			}
			l = append(l, n)
		}
		m.Add("hooks", l)
	}
	if len(e.Mounts) > 0 {
		var l []any
		for _, mt := range e.Mounts {
			if mt == nil {
				l = append(l, nil)
				continue
			}
			n := om("hostPath", mt.HostPath, "containerPath", mt.ContainerPath)
			if len(mt.Options) > 0 {
				n.Add("options", strList(mt.Options))
			}
			if mt.Type != "" {
				n.Add("type", mt.Type)
			}
			l = append(l, n)
		}
		m.Add("mounts", l)
	}
	if e.IntelRdt != nil {
		n := &OMap{}
		if e.IntelRdt.ClosID != "" {
			n.Add("closID", e.IntelRdt.ClosID)
		}
		if e.IntelRdt.L3CacheSchema != "" {
			n.Add("l3CacheSchema", e.IntelRdt.L3CacheSchema)
		}
		if e.IntelRdt.MemBwSchema != "" {
			n.Add("memBwSchema", e.IntelRdt.MemBwSchema)
		}
		if e.IntelRdt.EnableCMT {
			n.Add("enableCMT", true)
		}
		if e.IntelRdt.EnableMBM {
			n.Add("enableMBM", true)
		}
		m.Add("intelRdt", n)
	}
	if len(e.AdditionalGIDs) > 0 {
		var l []any
		for _, g := range e.AdditionalGIDs {
			l = append(l, g)
		}
		m.Add("additionalGids", l)
	}
	return m
}

func specDoc(s *specs.Spec) *OMap {
	m := om("cdiVersion", s.Version, "kind", s.Kind)
	if len(s.Annotations) > 0 {
		m.Add("annotations", annDoc(s.Annotations))
	}
	var devs any
	if s.Devices != nil {
		devs = []any{}
	}
	for i := range s.Devices {
		d := &s.Devices[i]
		n := om("name", d.Name)
		if len(d.Annotations) > 0 {
			n.Add("annotations", annDoc(d.Annotations))
		}
		n.Add("containerEdits", editsDoc(&d.ContainerEdits))
		devs = append(devs.([]any), n)
	}
	m.Add("devices", devs)
	if !editsEmpty(&s.ContainerEdits) {
		m.Add("containerEdits", editsDoc(&s.ContainerEdits))
	}
	return m
}

// specBytes renders a Spec with the harness's own emitters.
func specBytes(s *specs.Spec, enc string) []byte {
	if enc == "json" {
		return []byte(emitJSON(specDoc(s)))
	}
	return []byte("---\n" + emitYAML(specDoc(s)))
}

func cloneSpec(s *specs.Spec) *specs.Spec {
	b, err := json.Marshal(s)
	must(err)
	var out specs.Spec
	must(json.Unmarshal(b, &out))
	return &out
}

// normJSON returns the canonical, pruned JSON text of any value: null, "",
// 0, false, [] and {} are removed recursively (nil and empty containers, nil
// and zero pointers are not distinguished; list order is kept).
func normJSON(v any) string {
	b, err := json.Marshal(v)
	must(err)
	var t any
	dec := json.NewDecoder(strings.NewReader(string(b)))
	dec.UseNumber()
	must(dec.Decode(&t))
	t = prune(t)
	out, _ := json.Marshal(t)
	return string(out)
}

// exactJSON is normJSON without pruning of zero numbers and false: a member
// that is present with value 0 differs from an absent one (optional numbers
// such as a cgroup rule's minor, a device node's uid).
func exactJSON(v any) string {
	b, err := json.Marshal(v)
	must(err)
	var t any
	dec := json.NewDecoder(strings.NewReader(string(b)))
	dec.UseNumber()
	must(dec.Decode(&t))
	t = pruneContainers(t)
	out, _ := json.Marshal(t)
	return string(out)
}

func pruneContainers(v any) any {
	switch x := v.(type) {
	case map[string]any:
		for k, e := range x {
			p := pruneContainers(e)
			if p == nil {
				delete(x, k)
			} else {
				x[k] = p
			}
		}
		if len(x) == 0 {
			return nil
		}
		return x
	case []any:
		if len(x) == 0 {
			return nil
		}
		for i, e := range x {
			x[i] = pruneContainers(e)
		}
		return x
	}
	return v
}

func prune(v any) any {
	switch x := v.(type) {
	case map[string]any:
		for k, e := range x {
			p := prune(e)
			if p == nil {
				delete(x, k)
			} else {
				x[k] = p
			}
		}
		if len(x) == 0 {
			return nil
		}
		return x
	case []any:
		if len(x) == 0 {
			return nil
		}
		for i, e := range x {
			x[i] = prune(e)
		}
		return x
	case string:
		if x == "" {
			return nil
		}
	case json.Number:
		if x.String() == "0" {
			return nil
		}
	case bool:
		if !x {
			return nil
		}
	}
	return v
}
