package main

// C05 — a Spec is admitted iff well-formed per SPEC.md; any single defect
// rejects it. By-construction oracle: well-formed documents must be accepted by
// every entry point, documents with exactly one defect must be rejected by
// every entry point (an error, never a panic, never acceptance).

import (
	"fmt"
	"math/rand"
	"os"
	"path/filepath"
	"strings"

	"tags.cncf.io/container-device-interface/pkg/cdi"
	specs "tags.cncf.io/container-device-interface/specs-go"
)

func init() { register("C05", checkC05) }

// c05Base builds a well-formed Spec with 3 devices where every list has two
// elements at every level, so that each defect has a first/last position.
func c05Base(r *rand.Rand) *specs.Spec {
	edits := func(tag string) specs.ContainerEdits {
		return specs.ContainerEdits{
			Env: []string{"A_" + tag + "=1", "B_" + tag + "=x=y"},
			DeviceNodes: []*specs.DeviceNode{
				{Path: "/dev/" + tag + "0", Type: pickStr(r, "c", "b", "u"), Major: 1 + int64(r.Intn(9)), Minor: int64(r.Intn(9)), Permissions: pickStr(r, "", "r", "rwm")},
				{Path: "/dev/" + tag + "1", Type: "p", FileMode: fmode(0o600), UID: u32p(uint32(r.Intn(2))), GID: u32p(5)},
			},
			Hooks: []*specs.Hook{
				{HookName: hookNames[r.Intn(len(hookNames))], Path: "/bin/" + tag, Args: []string{"a"}, Env: []string{"H=1"}, Timeout: intp(r.Intn(10))},
				{HookName: hookNames[r.Intn(len(hookNames))], Path: "/bin/" + tag + "2"},
			},
			Mounts: []*specs.Mount{
				{HostPath: "/h/" + tag, ContainerPath: "/c/" + tag, Options: []string{"ro"}, Type: pickStr(r, "", "bind")},
				{HostPath: "/h2/" + tag, ContainerPath: "/c2/" + tag},
			},
			IntelRdt:       &specs.IntelRdt{ClosID: pickStr(r, "clos", "a.b", strings.Repeat("c", 4095)), L3CacheSchema: "L3:0=f"},
			AdditionalGIDs: []uint32{1, uint32(r.Intn(100))},
		}
	}
	ann := func() map[string]string {
		return map[string]string{pickStr(r, "note", "Note.x", "n", "k", "ak"): "v", "k": "kelvin twin", "ak": "kelvin twin", pickStr(r, "example.com/key", "a.b-c.io/K_1", strings.Repeat("p", 63)+"."+strings.Repeat("q", 63)+"/"+strings.Repeat("n", 63)): "w"}
	}
	s := &specs.Spec{Version: pickStr(r, "0.7.0", "0.8.0", "1.0.0"), Kind: pickStr(r, "vendor.com/gpu", "v/c", "V-1.x_y/c-1_z.w", "a.b/c.d"), Annotations: ann(), ContainerEdits: edits("s")}
	names := [][]string{{"dev0", "dev1", "dev2"}, {"a", "0", "x-y_z.w:1"}, {"0a", "B", "c:d"}}[r.Intn(3)]
	for i, n := range names {
		s.Devices = append(s.Devices, specs.Device{Name: n, Annotations: ann(), ContainerEdits: edits(fmt.Sprintf("d%d", i))})
	}
	return s
}

func c05Edits(s *specs.Spec, level string) *specs.ContainerEdits {
	if level == "spec" {
		return &s.ContainerEdits
	}
	var i int
	fmt.Sscanf(level, "dev%d", &i)
	return &s.Devices[i].ContainerEdits
}

type c05Defect struct {
	kind, level, elem, variant string
	spec                       *specs.Spec       // struct-representable defect (nil for document-only defects)
	doc                        *OMap             // the defective document
	memFix                     func(*specs.Spec) // applied to the in-memory copy handed to the writer (what JSON cloning loses)
}

var c05Levels = []string{"spec", "dev0", "dev1", "dev2"}

// c05Defects derives the single-defect variants of a base Spec.
func c05Defects(base *specs.Spec) []c05Defect {
	var out []c05Defect
	mem := func(kind, level, elem, variant string, f func(s *specs.Spec)) {
		s := cloneSpec(base)
		f(s)
		out = append(out, c05Defect{kind, level, elem, variant, s, specDoc(s), nil})
	}
	docd := func(kind, level, elem, variant string, f func(d *OMap)) {
		d := cloneDoc(specDoc(base)).(*OMap)
		f(d)
		out = append(out, c05Defect{kind, level, elem, variant, nil, d, nil})
	}
	idx := func(elem string) int {
		if elem == "first" {
			return 0
		}
		return 1
	}
	// --- version
	for _, v := range []string{"", "0.9.0", "2.0.0", "abc", "1.0", "0.3.0", "0.5.0", "0.6.0"} {
		v := v
		mem("version", "spec", "-", fmt.Sprintf("%q", v), func(s *specs.Spec) { s.Version = v })
	}
	// --- declared version older than one feature, the feature at every position
	strip := func(s *specs.Spec) {
		s.Annotations, s.Kind = nil, "vendor.com/gpu"
		for i := range s.Devices {
			s.Devices[i].Name = fmt.Sprintf("dev%d", i)
			s.Devices[i].Annotations = nil
		}
		for _, lvl := range c05Levels {
			e := c05Edits(s, lvl)
			e.IntelRdt, e.AdditionalGIDs = nil, nil
			for _, m := range e.Mounts {
				m.Type = ""
			}
			for _, n := range e.DeviceNodes {
				n.HostPath = ""
			}
		}
	}
	// --- two features of different versions together, declared one release below the newer one
	{
		type feat struct {
			name string
			ver  int
			set  func(s *specs.Spec)
		}
		feats := []feat{
			{"mount type", 1, func(s *specs.Spec) { s.ContainerEdits.Mounts[0].Type = "tmpfs" }},
			{"hostPath", 2, func(s *specs.Spec) { s.Devices[1].ContainerEdits.DeviceNodes[0].HostPath = "/dev/null" }},
			{"device name starting with a digit", 2, func(s *specs.Spec) { s.Devices[2].Name = "0dev" }},
			{"annotations", 3, func(s *specs.Spec) { s.Devices[0].Annotations = map[string]string{"k": "v"} }},
			{"additionalGids", 4, func(s *specs.Spec) { s.ContainerEdits.AdditionalGIDs = []uint32{5} }},
		}
		for i, lo := range feats {
			for _, hi := range feats[i+1:] {
				if hi.ver == lo.ver {
					continue
				}
				lo, hi := lo, hi
				mem("version-older-than-feature", "spec", "-", fmt.Sprintf("%s and %s together with %s", lo.name, hi.name, releasedVersions[hi.ver-1]), func(s *specs.Spec) {
					strip(s)
					lo.set(s)
					hi.set(s)
					s.Version = releasedVersions[hi.ver-1]
				})
			}
		}
	}
	// --- versions that never were released, or are older than the oldest supported one,
	// declared by a document that uses no version-gated feature at all
	for _, v := range []string{"0.1.0", "0.2.0", "0.0.0", "0.2.9", "0.3", "0.3.1", "v0.2.0"} {
		v := v
		mem("version", "spec", "-", fmt.Sprintf("%q on a document without version-gated features", v), func(s *specs.Spec) {
			strip(s)
			s.Version = v
		})
	}
	for _, lvl := range c05Levels {
		lvl := lvl
		di := -1
		fmt.Sscanf(lvl, "dev%d", &di)
		for _, el := range []string{"first", "last"} {
			el := el
			mem("version-older-than-feature", lvl, el, "mount type with 0.3.0", func(s *specs.Spec) {
				strip(s)
				c05Edits(s, lvl).Mounts[idx(el)].Type = "tmpfs"
				s.Version = "0.3.0"
			})
			mem("version-older-than-feature", lvl, el, "hostPath with 0.4.0", func(s *specs.Spec) {
				strip(s)
				c05Edits(s, lvl).DeviceNodes[idx(el)].HostPath = "/dev/null"
				s.Version = "0.4.0"
			})
		}
		mem("version-older-than-feature", lvl, "-", "intelRdt with 0.6.0", func(s *specs.Spec) {
			strip(s)
			c05Edits(s, lvl).IntelRdt = &specs.IntelRdt{ClosID: "x"}
			s.Version = "0.6.0"
		})
		mem("version-older-than-feature", lvl, "-", "additionalGids with 0.6.0", func(s *specs.Spec) {
			strip(s)
			c05Edits(s, lvl).AdditionalGIDs = []uint32{3}
			s.Version = "0.6.0"
		})
		mem("version-older-than-feature", lvl, "-", "annotations with 0.5.0", func(s *specs.Spec) {
			strip(s)
			if di < 0 {
				s.Annotations = map[string]string{"k": "v"}
			} else {
				s.Devices[di].Annotations = map[string]string{"k": "v"}
			}
			s.Version = "0.5.0"
		})
		if di >= 0 {
			mem("version-older-than-feature", lvl, "-", "device name starting with a digit with 0.4.0", func(s *specs.Spec) {
				strip(s)
				s.Devices[di].Name = "0dev"
				s.Version = "0.4.0"
			})
		} else {
			mem("version-older-than-feature", lvl, "-", "dotted class with 0.5.0", func(s *specs.Spec) {
				strip(s)
				s.Kind = "vendor.com/gpu.x"
				s.Version = "0.5.0"
			})
		}
	}
	// --- kind
	for _, k := range []string{"", "vendorclass", "/class", "vendor/", "1vendor/class", "vendor-/class", "vendor/class_", "ven dor/class", "vendor/cl:ass", "vendor/_class", ".vendor/class", "vendor/class/x", "vendor/é",
		// letters and digits are the ASCII ones: no other alphabet, no look-alikes, in any position
		"vendör.com/class", "vendor.com/clаss" /* Cyrillic а */, "vendor.com/cla\u212ass" /* Kelvin sign */, "vendor.com/cl٣ss" /* Arabic-Indic digit */, "vendor.com/clａss" /* fullwidth a */, "vεndor/class", "vendor/cl\u0131ss" /* dotless i */} {
		k := k
		mem("kind", "spec", "-", fmt.Sprintf("%q", k), func(s *specs.Spec) { s.Kind = k })
	}
	// --- devices
	mem("no-devices", "spec", "-", "empty list", func(s *specs.Spec) { s.Devices = nil })
	for i := 0; i < 3; i++ {
		i := i
		lvl := fmt.Sprintf("dev%d", i)
		for _, n := range []string{"", "-a", "a-", "a b", "a/b", "é", "a=b", ":a", "a:", "dév", "dеv" /* Cyrillic е */, "d٣v", "d\u212av", "dｅv", "a\u00b2b" /* superscript two */, "a\u0660b"} {
			n := n
			mem("device-name", lvl, "-", fmt.Sprintf("%q", n), func(s *specs.Spec) { s.Devices[i].Name = n })
		}
		mem("device-name-duplicate", lvl, "-", "same as next", func(s *specs.Spec) { s.Devices[i].Name = s.Devices[(i+1)%3].Name })
		mem("device-empty-edits", lvl, "-", "{}", func(s *specs.Spec) { s.Devices[i].ContainerEdits = specs.ContainerEdits{} })
		// empty edits spelt as explicit empty lists: in the document and, for the writer, as empty non-nil slices
		{
			sp := cloneSpec(base)
			sp.Devices[i].ContainerEdits = specs.ContainerEdits{}
			d := specDoc(sp)
			dv, _ := d.Get("devices")
			dv.([]any)[i].(*OMap).Set("containerEdits", om("env", []any{}, "deviceNodes", []any{}, "hooks", []any{}, "mounts", []any{}, "additionalGids", []any{}))
			out = append(out, c05Defect{"device-empty-edits", lvl, "-", "explicit empty lists", sp, d, func(s *specs.Spec) {
				s.Devices[i].ContainerEdits = specs.ContainerEdits{Env: []string{}, DeviceNodes: []*specs.DeviceNode{}, Hooks: []*specs.Hook{}, Mounts: []*specs.Mount{}, AdditionalGIDs: []uint32{}}
			}})
		}
	}
	for _, lvl := range c05Levels {
		lvl := lvl
		for _, el := range []string{"first", "last"} {
			el := el
			for _, v := range []string{"", "NOEQ", "=v"} {
				v := v
				mem("env", lvl, el, fmt.Sprintf("%q", v), func(s *specs.Spec) { c05Edits(s, lvl).Env[idx(el)] = v })
			}
			mem("node-path-empty", lvl, el, "", func(s *specs.Spec) { c05Edits(s, lvl).DeviceNodes[idx(el)].Path = "" })
			mem("node-path-empty", lvl, el, "hostPath set", func(s *specs.Spec) {
				n := c05Edits(s, lvl).DeviceNodes[idx(el)]
				n.Path, n.HostPath = "", "/dev/null"
			})
			mem("node-path-empty", lvl, el, "hostPath unset", func(s *specs.Spec) {
				n := c05Edits(s, lvl).DeviceNodes[idx(el)]
				n.Path, n.HostPath = "", ""
			})
			for _, t := range []string{"x", "C", "cc", "block", "bc", "cu", "up", "bcup", "cb", " c", "c ", "char", "b,c"} {
				t := t
				mem("node-type", lvl, el, t, func(s *specs.Spec) { c05Edits(s, lvl).DeviceNodes[idx(el)].Type = t })
			}
			for _, p := range []string{"rx", "rwmx", "R", "r w", "0", "rwn", "mrwx", "r,w"} {
				p := p
				mem("node-permissions", lvl, el, p, func(s *specs.Spec) { c05Edits(s, lvl).DeviceNodes[idx(el)].Permissions = p })
			}
			mem("node-null", lvl, el, "null", func(s *specs.Spec) { c05Edits(s, lvl).DeviceNodes[idx(el)] = nil })
			for _, h := range []string{"preStart", "", "prestart ", "create", "createruntime", "poststart,poststop", "Poststop", "startContainer "} {
				h := h
				mem("hook-stage", lvl, el, fmt.Sprintf("%q", h), func(s *specs.Spec) { c05Edits(s, lvl).Hooks[idx(el)].HookName = h })
			}
			mem("hook-path-empty", lvl, el, "", func(s *specs.Spec) { c05Edits(s, lvl).Hooks[idx(el)].Path = "" })
			for _, v := range []string{"NOEQ", "=v", ""} {
				v := v
				mem("hook-env", lvl, el, fmt.Sprintf("%q", v), func(s *specs.Spec) { c05Edits(s, lvl).Hooks[idx(el)].Env = []string{"OK=1", v} })
			}
			mem("hook-null", lvl, el, "null", func(s *specs.Spec) { c05Edits(s, lvl).Hooks[idx(el)] = nil })
			mem("mount-host-empty", lvl, el, "", func(s *specs.Spec) { c05Edits(s, lvl).Mounts[idx(el)].HostPath = "" })
			mem("mount-container-empty", lvl, el, "", func(s *specs.Spec) { c05Edits(s, lvl).Mounts[idx(el)].ContainerPath = "" })
			for _, mt := range []string{"tmpfs", "bind", "none", "proc"} {
				mt := mt
				mem("mount-host-empty", lvl, el, "type "+mt, func(s *specs.Spec) {
					m := c05Edits(s, lvl).Mounts[idx(el)]
					m.HostPath, m.Type = "", mt
				})
				mem("mount-container-empty", lvl, el, "type "+mt, func(s *specs.Spec) {
					m := c05Edits(s, lvl).Mounts[idx(el)]
					m.ContainerPath, m.Type = "", mt
				})
			}
			mem("mount-null", lvl, el, "null", func(s *specs.Spec) { c05Edits(s, lvl).Mounts[idx(el)] = nil })
		}
		for _, id := range []string{".", "..", "a/b", "/", "a\nb", "\n", strings.Repeat("a", 4096), strings.Repeat("a", 5000)} {
			id := id
			v := fmt.Sprintf("%q", id)
			if len(id) > 20 {
				v = fmt.Sprintf("%d bytes", len(id))
			}
			mem("rdt-closid", lvl, "-", v, func(s *specs.Spec) { c05Edits(s, lvl).IntelRdt.ClosID = id })
		}
		// annotations
		for _, k := range []string{"a b", strings.Repeat("a", 64), "-x.com/a", "", "a/b/c", "x.com/", "/a", "a_", ".a", "x..com/a", "x_y.com/a", "example.com./note", ".example.com/note", "example.com../a", "./a", "../a", "a./b", "xn--.com/a", "-.com/a", "a.-/b", strings.Repeat("p", 254) + "/a", "é", "K", "aK"} {
			k := k
			v := fmt.Sprintf("%q", k)
			if len(k) > 20 {
				v = fmt.Sprintf("%d bytes", len(k))
			}
			mem("annotation-key", lvl, "-", v, func(s *specs.Spec) {
				if lvl == "spec" {
					s.Annotations[k] = "v"
				} else {
					var i int
					fmt.Sscanf(lvl, "dev%d", &i)
					s.Devices[i].Annotations[k] = "v"
				}
			})
		}
		// the limit is 256 KiB of key and value BYTES per annotation set: multi-byte
		// characters count with all their bytes, and a set that is a single byte
		// over is already too large
		for _, v := range []struct{ variant, big string }{
			{">256KiB", strings.Repeat("x", 262145)},
			{"one-byte-over", "EXACT+1"},
			{"2-byte-chars", strings.Repeat("\u00e9", 131100)},
			{"3-byte-chars", strings.Repeat("\u20ac", 87400)},
			{"4-byte-chars", strings.Repeat("\U0001F600", 65560)},
		} {
			v := v
			mem("annotation-size", lvl, "-", v.variant, func(s *specs.Spec) {
				m := s.Annotations
				if lvl != "spec" {
					var i int
					fmt.Sscanf(lvl, "dev%d", &i)
					m = s.Devices[i].Annotations
				}
				big := v.big
				if big == "EXACT+1" {
					used := len("big")
					for k, val := range m {
						used += len(k) + len(val)
					}
					big = strings.Repeat("x", 262144-used+1)
				}
				m["big"] = big
			})
		}
	}
	// --- document-only defects: unknown fields, missing members, structural type errors
	devDoc := func(d *OMap, i int) *OMap { v, _ := d.Get("devices"); return v.([]any)[i].(*OMap) }
	editsDocAt := func(d *OMap, lvl string) *OMap {
		if lvl == "spec" {
			v, _ := d.Get("containerEdits")
			return v.(*OMap)
		}
		var i int
		fmt.Sscanf(lvl, "dev%d", &i)
		v, _ := devDoc(d, i).Get("containerEdits")
		return v.(*OMap)
	}
	elemDoc := func(d *OMap, lvl, list string, i int) *OMap {
		v, _ := editsDocAt(d, lvl).Get(list)
		return v.([]any)[i].(*OMap)
	}
	docd("unknown-field", "spec", "-", "spec object: extra", func(d *OMap) { d.Add("extra", "x") })
	docd("unknown-field", "spec", "-", "spec object: version", func(d *OMap) { d.Add("version", "1.0.0") })
	docd("unknown-field-case-variant", "spec", "-", "spec object: cdiversion", func(d *OMap) { d.Add("cdiversion", "1.0.0") })
	docd("missing-member", "spec", "-", "cdiVersion", func(d *OMap) { d.Del("cdiVersion") })
	docd("missing-member", "spec", "-", "kind", func(d *OMap) { d.Del("kind") })
	docd("missing-member", "spec", "-", "devices", func(d *OMap) { d.Del("devices") })
	docd("wrong-type", "spec", "-", "devices: {}", func(d *OMap) { d.Set("devices", &OMap{}) })
	docd("wrong-type", "spec", "-", "devices: string", func(d *OMap) { d.Set("devices", "dev0") })
	docd("wrong-type", "spec", "-", "annotations: []", func(d *OMap) { d.Set("annotations", []any{"a"}) })
	docd("wrong-type", "spec", "-", "kind: {}", func(d *OMap) { d.Set("kind", om("vendor", "v")) })
	docd("wrong-type", "spec", "-", "root is a list", func(d *OMap) {
		inner := cloneDoc(d).(*OMap)
		d.K, d.V = nil, nil
		d.Add("list", []any{inner})
	})
	for i := 0; i < 3; i++ {
		i := i
		lvl := fmt.Sprintf("dev%d", i)
		docd("unknown-field", lvl, "-", "device object: extra", func(d *OMap) { devDoc(d, i).Add("extra", 1) })
		docd("unknown-field-case-variant", lvl, "-", "device object: Name", func(d *OMap) { devDoc(d, i).Add("Name", "other") })
		docd("missing-member", lvl, "-", "device name", func(d *OMap) { devDoc(d, i).Del("name") })
		docd("missing-member", lvl, "-", "device containerEdits", func(d *OMap) { devDoc(d, i).Del("containerEdits") })
		docd("wrong-type", lvl, "-", "device is a string", func(d *OMap) { v, _ := d.Get("devices"); v.([]any)[i] = "dev" })
		docd("wrong-type", lvl, "-", "device is null", func(d *OMap) { v, _ := d.Get("devices"); v.([]any)[i] = nil })
	}
	for _, lvl := range c05Levels {
		lvl := lvl
		docd("unknown-field", lvl, "-", "containerEdits object: devices", func(d *OMap) { editsDocAt(d, lvl).Add("devices", []any{}) })
		docd("unknown-field", lvl, "-", "intelRdt object: schema", func(d *OMap) { v, _ := editsDocAt(d, lvl).Get("intelRdt"); v.(*OMap).Add("schema", "x") })
		docd("unknown-field-case-variant", lvl, "-", "containerEdits object: devicenodes", func(d *OMap) { editsDocAt(d, lvl).Add("devicenodes", []any{}) })
		docd("unknown-field-case-variant", lvl, "-", "intelRdt object: closid", func(d *OMap) { v, _ := editsDocAt(d, lvl).Get("intelRdt"); v.(*OMap).Add("closid", "x") })
		docd("wrong-type", lvl, "-", "env: string", func(d *OMap) { editsDocAt(d, lvl).Set("env", "A=b") })
		docd("wrong-type", lvl, "-", "deviceNodes: {}", func(d *OMap) { editsDocAt(d, lvl).Set("deviceNodes", om("path", "/dev/x")) })
		docd("wrong-type", lvl, "-", "hooks: string", func(d *OMap) { editsDocAt(d, lvl).Set("hooks", "x") })
		docd("wrong-type", lvl, "-", "mounts: number", func(d *OMap) { editsDocAt(d, lvl).Set("mounts", 5) })
		docd("wrong-type", lvl, "-", "intelRdt: []", func(d *OMap) { editsDocAt(d, lvl).Set("intelRdt", []any{"x"}) })
		docd("wrong-type", lvl, "-", "additionalGids: string", func(d *OMap) { editsDocAt(d, lvl).Set("additionalGids", "five") })
		for _, el := range []string{"first", "last"} {
			el := el
			docd("unknown-field", lvl, el, "deviceNode object: host", func(d *OMap) { elemDoc(d, lvl, "deviceNodes", idx(el)).Add("host", "/x") })
			docd("unknown-field", lvl, el, "hook object: name", func(d *OMap) { elemDoc(d, lvl, "hooks", idx(el)).Add("name", "x") })
			docd("unknown-field", lvl, el, "mount object: source", func(d *OMap) { elemDoc(d, lvl, "mounts", idx(el)).Add("source", "/x") })
			docd("unknown-field-case-variant", lvl, el, "deviceNode object: hostpath", func(d *OMap) { elemDoc(d, lvl, "deviceNodes", idx(el)).Add("hostpath", "/x") })
			docd("unknown-field-case-variant", lvl, el, "hook object: hookname", func(d *OMap) { elemDoc(d, lvl, "hooks", idx(el)).Add("hookname", "prestart") })
			docd("unknown-field-case-variant", lvl, el, "mount object: HostPath", func(d *OMap) { elemDoc(d, lvl, "mounts", idx(el)).Add("HostPath", "/x") })
			docd("missing-member", lvl, el, "node path", func(d *OMap) { elemDoc(d, lvl, "deviceNodes", idx(el)).Del("path") })
			docd("missing-member", lvl, el, "hook hookName", func(d *OMap) { elemDoc(d, lvl, "hooks", idx(el)).Del("hookName") })
			docd("missing-member", lvl, el, "hook path", func(d *OMap) { elemDoc(d, lvl, "hooks", idx(el)).Del("path") })
			docd("missing-member", lvl, el, "mount hostPath", func(d *OMap) { elemDoc(d, lvl, "mounts", idx(el)).Del("hostPath") })
			docd("missing-member", lvl, el, "mount containerPath", func(d *OMap) { elemDoc(d, lvl, "mounts", idx(el)).Del("containerPath") })
			docd("wrong-type", lvl, el, "node major: string", func(d *OMap) { elemDoc(d, lvl, "deviceNodes", idx(el)).Set("major", "abc") })
			docd("wrong-type", lvl, el, "mount options: string", func(d *OMap) { elemDoc(d, lvl, "mounts", idx(el)).Set("options", "ro") })
			docd("wrong-type", lvl, el, "hook args: {}", func(d *OMap) { elemDoc(d, lvl, "hooks", idx(el)).Set("args", om("a", "b")) })
			docd("wrong-type", lvl, el, "env element is a list", func(d *OMap) { v, _ := editsDocAt(d, lvl).Get("env"); v.([]any)[idx(el)] = []any{"A=b"} })
		}
	}
	return out
}

// c05Try runs one document through all entry points. wantOK says whether it
// must be accepted. It returns discrepancies as (entry point, message).
func c05Try(dir string, tag string, doc *OMap, mem *specs.Spec, enc string, wantOK bool, goodDev string, memFix ...func(*specs.Spec)) (bad [][2]string) {
	fail := func(entry, format string, a ...any) {
		bad = append(bad, [2]string{entry, fmt.Sprintf(format, a...)})
	}
	var data []byte
	if enc == "json" {
		data = []byte(emitJSON(doc))
	} else {
		data = []byte("---\n" + emitYAML(doc))
	}
	verdict := func(entry string, err error) {
		if wantOK && err != nil {
			fail(entry, "well-formed document rejected: %v", err)
		}
		if !wantOK && err == nil {
			fail(entry, "defective document accepted")
		}
	}
	// ReadSpec on a file
	sub := filepath.Join(dir, tag)
	must(os.MkdirAll(sub, 0o755))
	defer os.RemoveAll(sub)
	path := filepath.Join(sub, "under-test."+enc)
	must(os.WriteFile(path, data, 0o644))
	var err error
	if pv, _ := guard(func() { _, err = cdi.ReadSpec(path, 0) }); pv != nil {
		fail("ReadSpec", "panic: %v", pv)
	} else {
		verdict("ReadSpec", err)
	}
	// ParseSpec: never panics; accepts every well-formed document
	var raw *specs.Spec
	if pv, _ := guard(func() { raw, err = cdi.ParseSpec(data) }); pv != nil {
		fail("ParseSpec", "panic: %v", pv)
	} else if wantOK && (err != nil || raw == nil) {
		fail("ParseSpec", "well-formed document rejected: %v", err)
	}
	// cache: Refresh + GetErrors + listing
	if pv, _ := guard(func() {
		cache, _ := cdi.NewCache(cdi.WithSpecDirs(sub), cdi.WithAutoRefresh(false))
		rerr := cache.Refresh()
		errs := cache.GetErrors()
		devs := cache.ListDevices()
		if wantOK {
			if len(errs[path]) > 0 || rerr != nil {
				fail("Cache.Refresh", "well-formed Spec file reported in error: %v / %v", rerr, errs[path])
			}
			if len(devs) == 0 {
				fail("Cache.Refresh", "devices of a well-formed Spec file are not listed")
			}
		} else {
			if len(errs[path]) == 0 {
				fail("Cache.Refresh", "defective Spec file has no entry in GetErrors()")
			}
			if rerr == nil {
				fail("Cache.Refresh", "Refresh() returns nil although a Spec file is defective")
			}
			if len(devs) != 0 {
				fail("Cache.Refresh", "devices of a defective Spec file are listed: %v", devs)
			}
		}
	}); pv != nil {
		fail("Cache.Refresh", "panic: %v", pv)
	}
	// the writer, for the in-memory form
	if mem != nil {
		wdir := filepath.Join(sub, "w")
		if pv, _ := guard(func() {
			cache, _ := cdi.NewCache(cdi.WithSpecDirs(wdir), cdi.WithAutoRefresh(false))
			ms := cloneSpecKeepNil(mem)
			for _, f := range memFix {
				if f != nil {
					f(ms)
				}
			}
			err = cache.WriteSpec(ms, "written."+enc)
		}); pv != nil {
			fail("Cache.WriteSpec", "panic: %v", pv)
		} else {
			verdict("Cache.WriteSpec", err)
			_, serr := os.Stat(filepath.Join(wdir, "written."+enc))
			if !wantOK && serr == nil {
				fail("Cache.WriteSpec", "a file was produced for a defective Spec")
			}
		}
	}
	return
}

// cloneSpecKeepNil copies a Spec keeping nil list entries (JSON null round-trips to nil).
func cloneSpecKeepNil(s *specs.Spec) *specs.Spec { return cloneSpec(s) }

func checkC05(c *Ctx) {
	c.Rule = "by-construction oracle: (a) well-formed Specs from G-SPEC (all optional fields, boundary-valid values: one-letter vendor/class/device names, 63-byte annotation name parts, 4095-byte closID) must be accepted by ReadSpec(.json/.yaml), ParseSpec, Cache.Refresh and Cache.WriteSpec; (b) every single-defect variant from the catalogue (kind x level spec/dev0/dev1/dev2 x first/last list element x variant) in JSON and YAML must be rejected by all of them, also with an accepting external Spec validator installed; distinct_nontrivial = distinct (defect kind, level, element, variant, encoding) cells plus distinct accepted Specs"
	c.Assume("the rule list is the one enumerated in the property statement; SPEC.md rules it does not list (63-character names, absolute hook paths, positive timeouts, duplicate keys, scalar type coercions) are not demanded", "a defect is 'rejected' iff every entry point returns an error (for the cache: an error entry and no devices of that file)")
	dir := filepath.Join(c.Scratch, "c05")
	must(os.MkdirAll(dir, 0o755))
	nbase := c.pick(4, 120)
	// (a) well-formed
	c.RunCases("valid", c.pick(300, 8000), 0, func(cs *Case) {
		r := cs.R
		var s *specs.Spec
		if chance(r, 30) {
			s = c05Base(r)
		} else {
			s = genSpec(r, SpecGen{Marker: "m"})
		}
		if chance(r, 4) {
			// boundary-valid: an annotation set of exactly 256 KiB, ASCII or multi-byte
			s = c05Base(r)
			m := s.Annotations
			if chance(r, 50) {
				m = s.Devices[r.Intn(len(s.Devices))].Annotations
			}
			used := len("big")
			for k, val := range m {
				used += len(k) + len(val)
			}
			unit := pickStr(r, "x", "\u00e9", "\u20ac", "\U0001F600")
			n := (262144 - used) / len(unit)
			m["big"] = strings.Repeat(unit, n) + strings.Repeat("x", 262144-used-n*len(unit))
			c.Count("valid_with_annotation_set_of_exactly_256KiB", 1)
		}
		for _, enc := range []string{"json", "yaml"} {
			bad := c05Try(dir, sanitize(cs.Name), specDoc(s), s, enc, true, "")
			c.Count("valid_documents", 1)
			c.Distinct("valid|" + enc + "|" + normJSON(s)[:min(200, len(normJSON(s)))])
			if len(bad) > 0 {
				cs.Violation("valid-rejected", map[string]string{"entry": bad[0][0], "encoding": enc}, bad[0][0]+": "+bad[0][1], map[string]any{"discrepancies": bad, "spec": s, "document": docText(specDoc(s), enc)})
				return
			}
		}
	})
	// (b) single defects
	runBase := func(cs *Case) {
		base := c05Base(cs.R)
		defects := c05Defects(base)
		names := make([]string, len(defects))
		for i := range defects {
			names[i] = fmt.Sprintf("%s/defect:%d", cs.Name, i)
		}
		c.RunNamed(names, 0, func(ds *Case) {
			var i int
			fmt.Sscanf(ds.Name[strings.LastIndex(ds.Name, ":")+1:], "%d", &i)
			d := defects[i]
			for _, enc := range []string{"json", "yaml"} {
				bad := c05Try(dir, sanitize(ds.Name), d.doc, d.spec, enc, false, "", d.memFix)
				c.Count("defective_documents", 1)
				c.Count("defect:"+d.kind, 1)
				c.Distinct(fmt.Sprintf("%s|%s|%s|%s|%s", d.kind, d.level, d.elem, d.variant, enc))
				if len(bad) > 0 {
					var all []string
					for _, b := range bad {
						all = append(all, b[0]+": "+b[1])
					}
					ds.Violation("defect-"+d.kind, map[string]string{"kind": d.kind, "variant": d.variant, "entry": bad[0][0], "encoding": enc},
						fmt.Sprintf("defect %s (%s) at %s/%s, %s: %s", d.kind, d.variant, d.level, d.elem, enc, strings.Join(all, "; ")),
						map[string]any{"defect": map[string]string{"kind": d.kind, "level": d.level, "element": d.elem, "variant": d.variant}, "discrepancies": all, "document": docText(d.doc, enc)})
					return
				}
			}
		})
		c.Sample(2, map[string]any{"base_spec": base, "single_defect_variants": len(defects), "example_defect": map[string]string{"kind": defects[len(defects)/2].kind, "level": defects[len(defects)/2].level, "variant": defects[len(defects)/2].variant}})
	}
	c.RunCases("base", nbase, 1, runBase)
	// (c) the same catalogue with an accepting external Spec validator installed (the
	// cdi tool always installs one): an external validator adds checks, it never
	// stands in for the library's own
	cdi.SetSpecValidator(acceptAllValidator{})
	c.RunCases("validator-installed", c.pick(1, 10), 1, func(cs *Case) {
		c.Count("bases_with_external_validator_installed", 1)
		runBase(cs)
	})
	cdi.SetSpecValidator(nil)
	c.Floor("bases_with_external_validator_installed", 1)
	// (d) size is no excuse: the same verdicts for documents of more than 1, 4, ... MiB
	// whose single defect sits in the very last device
	sizes := []int{1300 << 10, 4500 << 10}
	if !c.Quick() {
		sizes = append(sizes, 9<<20, 17<<20, 33<<20)
	}
	largeDefects := []string{"none", "duplicate-name", "unknown-field", "env-without-equals", "empty-edits", "bad-version-feature"}
	var lnames []string
	for si := range sizes {
		for _, enc := range []string{"json", "yaml"} {
			for di := range largeDefects {
				lnames = append(lnames, fmt.Sprintf("large:%d.%s.%d", si, enc, di))
			}
		}
	}
	c.RunNamed(lnames, 4, func(cs *Case) {
		var si, di int
		var enc string
		parts := strings.Split(strings.TrimPrefix(cs.Name, "large:"), ".")
		fmt.Sscanf(parts[0], "%d", &si)
		enc = parts[1]
		fmt.Sscanf(parts[2], "%d", &di)
		base := c05Base(cs.R)
		base.Version = "0.6.0" // no 0.7.0 feature may appear ...
		base.ContainerEdits.IntelRdt, base.ContainerEdits.AdditionalGIDs = nil, nil
		for i := range base.Devices {
			base.Devices[i].ContainerEdits.IntelRdt, base.Devices[i].ContainerEdits.AdditionalGIDs = nil, nil
		}
		d := specDoc(base)
		v, _ := d.Get("devices")
		l := v.([]any)
		filler := strings.Repeat("x", 2000)
		for n := 0; n*2060 < sizes[si]; n++ {
			l = append(l, om("name", fmt.Sprintf("fill%d", n), "containerEdits", om("env", []any{"F=" + filler})))
		}
		last := om("name", "last", "containerEdits", om("env", []any{"LAST=1"}))
		switch largeDefects[di] {
		case "duplicate-name":
			last.Set("name", "fill0")
		case "unknown-field":
			last.Add("bogus", 1)
		case "env-without-equals":
			last.Set("containerEdits", om("env", []any{"NOEQUALS"}))
		case "empty-edits":
			last.Set("containerEdits", &OMap{})
		case "bad-version-feature": // ... except here: a 0.7.0 feature at the very end of a 0.6.0 document
			last.Set("containerEdits", om("additionalGids", []any{5}))
		}
		l = append(l, last)
		d.Set("devices", l)
		bad := c05Try(dir, sanitize(cs.Name), d, nil, enc, largeDefects[di] == "none", "")
		c.Count("large_documents", 1)
		c.Count(fmt.Sprintf("large_documents_over_%d_KiB", sizes[si]>>10), 1)
		c.Distinct(fmt.Sprintf("large|%d|%s|%s", si, enc, largeDefects[di]))
		if len(bad) > 0 {
			var all []string
			for _, b := range bad {
				all = append(all, b[0]+": "+b[1])
			}
			cls := "defect-" + largeDefects[di]
			if largeDefects[di] == "none" {
				cls = "valid-rejected"
			}
			cs.Violation(cls, map[string]string{"size": fmt.Sprint(sizes[si]), "encoding": enc, "entry": bad[0][0]},
				fmt.Sprintf("document of more than %d KiB (%s) with %s in its last device: %s", sizes[si]>>10, enc, largeDefects[di], strings.Join(all, "; ")),
				map[string]any{"discrepancies": all, "size": sizes[si], "defect": largeDefects[di], "document_tail": docText(d, enc)})
		}
	})
	c.Floor("large_documents", 20)
	c.Floor("valid_documents", 100)
	c.Floor("defective_documents", 1000)
}

func docText(d *OMap, enc string) string {
	var s string
	if enc == "json" {
		s = emitJSON(d)
	} else {
		s = emitYAML(d)
	}
	if len(s) > 6000 {
		s = s[:3000] + " ...[" + fmt.Sprint(len(s)-6000) + " bytes]... " + s[len(s)-3000:]
	}
	return s
}
