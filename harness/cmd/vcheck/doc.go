package main

// A minimal ordered document tree with the harness's own JSON and YAML
// emitters, so that the library's encoders are never their own oracle and so
// that defective documents (unknown fields, duplicate keys, nulls, wrong
// types) can be produced at will.

import (
	"encoding/json"
	"fmt"
	"strings"
)

type OMap struct {
	K []string
	V []any
}

// RawNum is emitted verbatim as a number token.
type RawNum string

// RawYAML is emitted verbatim as a YAML plain scalar / JSON raw token.
type RawTok string

func om(kv ...any) *OMap {
	m := &OMap{}
	for i := 0; i+1 < len(kv); i += 2 {
		m.K = append(m.K, kv[i].(string))
		m.V = append(m.V, kv[i+1])
	}
	return m
}

func (m *OMap) Set(k string, v any) *OMap {
	for i, kk := range m.K {
		if kk == k {
			m.V[i] = v
			return m
		}
	}
	m.K = append(m.K, k)
	m.V = append(m.V, v)
	return m
}

// Add appends even if the key exists (duplicate key).
func (m *OMap) Add(k string, v any) *OMap {
	m.K = append(m.K, k)
	m.V = append(m.V, v)
	return m
}

func (m *OMap) Get(k string) (any, bool) {
	for i, kk := range m.K {
		if kk == k {
			return m.V[i], true
		}
	}
	return nil, false
}

func (m *OMap) Del(k string) {
	for i, kk := range m.K {
		if kk == k {
			m.K = append(m.K[:i:i], m.K[i+1:]...)
			m.V = append(m.V[:i:i], m.V[i+1:]...)
			return
		}
	}
}

func cloneDoc(v any) any {
	switch x := v.(type) {
	case *OMap:
		n := &OMap{K: append([]string(nil), x.K...)}
		for _, e := range x.V {
			n.V = append(n.V, cloneDoc(e))
		}
		return n
	case []any:
		n := make([]any, len(x))
		for i, e := range x {
			n[i] = cloneDoc(e)
		}
		return n
	}
	return v
}

// jsonQuote quotes a string as a JSON string; the result is also a valid YAML
// double-quoted scalar. DEL, C1 controls and U+FFFE/F are \u-escaped so that a
// YAML reader accepts the document (see C09).
func jsonQuote(s string) string {
	b, _ := json.Marshal(s)
	var sb strings.Builder
	for _, r := range string(b) {
		if (r >= 0x7f && r <= 0x9f) || r == 0xfffe || r == 0xffff || r == 0xfeff {
			fmt.Fprintf(&sb, "\\u%04x", r)
		} else {
			sb.WriteRune(r)
		}
	}
	// encoding/json escapes <,>,& as <...: valid in both encodings
	return sb.String()
}

func scalarTok(v any) (string, bool) {
	switch x := v.(type) {
	case nil:
		return "null", true
	case string:
		return jsonQuote(x), true
	case bool:
		if x {
			return "true", true
		}
		return "false", true
	case int:
		return fmt.Sprint(x), true
	case int64:
		return fmt.Sprint(x), true
	case uint32:
		return fmt.Sprint(x), true
	case uint64:
		return fmt.Sprint(x), true
	case float64:
		b, _ := json.Marshal(x)
		return string(b), true
	case RawNum:
		return string(x), true
	case RawTok:
		return string(x), true
	}
	return "", false
}

func emitJSON(v any) string {
	var sb strings.Builder
	emitJSONTo(&sb, v)
	return sb.String()
}

func emitJSONTo(sb *strings.Builder, v any) {
	if t, ok := scalarTok(v); ok {
		sb.WriteString(t)
		return
	}
	switch x := v.(type) {
	case *OMap:
		sb.WriteByte('{')
		for i, k := range x.K {
			if i > 0 {
				sb.WriteByte(',')
			}
			sb.WriteString(jsonQuote(k))
			sb.WriteByte(':')
			emitJSONTo(sb, x.V[i])
		}
		sb.WriteByte('}')
	case []any:
		sb.WriteByte('[')
		for i, e := range x {
			if i > 0 {
				sb.WriteByte(',')
			}
			emitJSONTo(sb, e)
		}
		sb.WriteByte(']')
	default:
		panic(fmt.Sprintf("emitJSON: unsupported %T", v))
	}
}

// emitYAML emits block-style YAML: block mappings and sequences, every string
// (keys too) double-quoted, canonical decimal integers.
func emitYAML(v any) string {
	var sb strings.Builder
	if t, ok := scalarTok(v); ok {
		sb.WriteString(t + "\n")
		return sb.String()
	}
	emitYAMLTo(&sb, v, 0)
	return sb.String()
}

func emitYAMLTo(sb *strings.Builder, v any, ind int) {
	pad := strings.Repeat("  ", ind)
	switch x := v.(type) {
	case *OMap:
		if len(x.K) == 0 {
			sb.WriteString(pad + "{}\n")
			return
		}
		for i, k := range x.K {
			if len(k) > 900 {
				// implicit keys are limited to 1024 characters: use an explicit key
				sb.WriteString(pad + "? " + jsonQuote(k) + "\n" + pad + ":")
			} else {
				sb.WriteString(pad + jsonQuote(k) + ":")
			}
			emitYAMLVal(sb, x.V[i], ind)
		}
	case []any:
		if len(x) == 0 {
			sb.WriteString(pad + "[]\n")
			return
		}
		for _, e := range x {
			sb.WriteString(pad + "-")
			emitYAMLVal(sb, e, ind)
		}
	default:
		panic(fmt.Sprintf("emitYAML: unsupported %T", v))
	}
}

func emitYAMLVal(sb *strings.Builder, v any, ind int) {
	if t, ok := scalarTok(v); ok {
		sb.WriteString(" " + t + "\n")
		return
	}
	switch x := v.(type) {
	case *OMap:
		if len(x.K) == 0 {
			sb.WriteString(" {}\n")
			return
		}
	case []any:
		if len(x) == 0 {
			sb.WriteString(" []\n")
			return
		}
	}
	sb.WriteString("\n")
	emitYAMLTo(sb, v, ind+1)
}

// docToGo converts the tree to plain Go values (map[string]any etc.); duplicate
// keys: last wins.
func docToGo(v any) any {
	switch x := v.(type) {
	case *OMap:
		m := map[string]any{}
		for i, k := range x.K {
			m[k] = docToGo(x.V[i])
		}
		return m
	case []any:
		n := make([]any, len(x))
		for i, e := range x {
			n[i] = docToGo(e)
		}
		return n
	case RawNum:
		return json.Number(string(x))
	case RawTok:
		return string(x)
	}
	return v
}
