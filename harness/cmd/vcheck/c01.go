package main

// C01 — device resolution follows Spec-directory precedence.
// Reference-model monitor: generated directory populations and histories;
// after every refresh all query results are compared with M-RESOLVE.

import (
	"fmt"
	"os"
	"path/filepath"
	"sync/atomic"

	"tags.cncf.io/container-device-interface/pkg/cdi"
)

func init() { register("C01", checkC01) }

func c01Note(c *Ctx, res *Resolved) {
	c.Distinct(res.Shape)
	flag := func(b bool, k string) {
		if b {
			c.Count(k, 1)
		}
	}
	flag(res.HasShadow, "shape:shadowing")
	flag(res.HasConflictTop, "shape:conflict_at_top")
	flag(res.HasConflictBelow, "shape:conflict_below_higher_definition")
	flag(res.HasRepeat, "shape:repeated_directory")
	flag(res.HasMissing, "shape:missing_directory")
	flag(res.HasInvalid, "shape:invalid_file")
	flag(res.HasIgnored, "shape:ignored_entries")
	flag(res.HasSpecial, "shape:fifo_or_link_to_directory_entry")
	flag(res.HasInvalid && res.HasShadow, "shape:invalid_file_with_shadowing")
}

func checkC01(c *Ctx) {
	c.Rule = "seeded populations of 1-4 configured directories (missing, repeated, non-clean spellings) with valid/invalid/non-Spec/nested files and non-regular entries (FIFO, symbolic link to a directory) over a small pool of kinds and device names (so that definitions collide), each followed by 1-4 change steps (file-system changes with a refresh after each, or a reconfiguration of the same cache with a permuted / shortened / repeated directory list); manual mode and auto-refresh mode (logical quiescence via sentinel + watch.event hook, then Refresh); distinct_nontrivial = distinct population shapes (per device: directory index -> number of defining files, plus presence of invalid/ignored/repeated/missing entries) seen at a comparison point"
	c.Assume("M-RESOLVE (gen_dirs.go) transcribes the statement of C01", "populations are bounded: <=4 directories, <=5 Spec files per directory, <=3 devices per file", "symlinked directories are outside the generator")
	// the package defaults point at a populated directory: nothing of it may ever show
	// up in a cache that was given a directory list of its own, the empty one included
	trap := filepath.Join(c.Scratch, "package-defaults")
	must(os.MkdirAll(trap, 0o755))
	must(os.WriteFile(filepath.Join(trap, "trap.json"), []byte(`{"cdiVersion":"0.6.0","kind":"trap.org/dev","devices":[{"name":"t","containerEdits":{"env":["TRAP=1"]}}]}`), 0o644))
	cdi.DefaultSpecDirs = []string{trap}
	nManual := c.pick(2500, 40000)
	nAuto := c.pick(250, 4000)
	c.RunCases("manual", nManual, 0, func(cs *Case) {
		r := cs.R
		root := filepath.Join(c.Scratch, sanitize(cs.Name))
		must(os.MkdirAll(root, 0o755))
		defer os.RemoveAll(root)
		p := genPop(r, root)
		p.Write()
		var cache *cdi.Cache
		history := []string{"initial"}
		opt, reuse := withDirs(p.Conf)
		defer func() { reuse() }()
		if pv, st := guard(func() { cache, _ = cdi.NewCache(opt, cdi.WithAutoRefresh(false)); reuse() }); pv != nil {
			cs.Violation("panic", nil, fmt.Sprintf("NewCache panics: %v", pv), map[string]any{"population": p.Describe(), "stack": st})
			return
		}
		steps := 1 + r.Intn(4)
		for k := 0; k <= steps; k++ {
			if k > 0 && chance(r, 20) {
				// the directory list itself changes: the cache is reconfigured (which rescans)
				history = append(history, p.Relist(r, -1))
				c.Count("reconfigurations", 1)
				if pv, st := guard(func() { o, ru := withDirs(p.Conf); cache.Configure(o); ru() }); pv != nil {
					cs.Violation("panic", nil, fmt.Sprintf("Configure panics: %v", pv), map[string]any{"population": p.Describe(), "history": history, "stack": st})
					return
				}
			} else if k > 0 {
				history = append(history, p.Step(r))
				if pv, st := guard(func() { cache.Refresh() }); pv != nil {
					cs.Violation("panic", nil, fmt.Sprintf("Refresh panics: %v", pv), map[string]any{"population": p.Describe(), "history": history, "stack": st})
					return
				}
			}
			res := p.Resolve()
			c01Note(c, res)
			c.Count("comparisons", 1)
			var bad []string
			if pv, st := guard(func() { bad = compareCache(cache, res, true) }); pv != nil {
				cs.Violation("panic", nil, fmt.Sprintf("query panics: %v", pv), map[string]any{"population": p.Describe(), "history": history, "stack": st})
				return
			}
			if len(bad) > 0 {
				cs.Violation("resolution", map[string]string{"mode": "manual"}, bad[0], map[string]any{"discrepancies": bad, "population": p.Describe(), "history": history})
				return
			}
			if k == 0 {
				c.Sample(3, map[string]any{"mode": "manual", "configured_dirs": p.Conf, "shape": res.Shape, "devices_resolved": len(res.Devices)})
			}
		}
		if chance(r, 8) {
			// the empty directory list is a list too: nothing is configured, nothing resolves
			mode := pickStr(r, "reconfigured", "new")
			ec := cache
			if mode == "new" {
				ec, _ = cdi.NewCache(cdi.WithSpecDirs(), cdi.WithAutoRefresh(chance(r, 30)))
				defer releaseCache(ec)
			} else {
				ec.Configure(cdi.WithSpecDirs())
			}
			ec.Refresh()
			c.Count("empty_directory_lists", 1)
			if devs, vend, dirs := ec.ListDevices(), ec.ListVendors(), ec.GetSpecDirectories(); len(devs)+len(vend)+len(dirs) > 0 || ec.GetDevice("trap.org/dev=t") != nil {
				cs.Violation("resolution", map[string]string{"mode": "empty-list"}, fmt.Sprintf("a cache (%s) with an empty directory list has directories %v, devices %v, vendors %v", mode, dirs, devs, vend), map[string]any{"history": history})
			}
		}
	})
	// a configured directory inside another configured directory: each is scanned for the
	// files directly inside it, at its own place in the list (the inner one is just a
	// subdirectory when the outer one is scanned)
	c.RunCases("nested", c.pick(80, 2000), 0, func(cs *Case) {
		r := cs.R
		root := filepath.Join(c.Scratch, sanitize(cs.Name))
		must(os.MkdirAll(root, 0o755))
		defer os.RemoveAll(root)
		p := genPop(r, root)
		var parents []int
		for i := range p.Phys {
			if p.Exists[i] {
				parents = append(parents, i)
			}
		}
		if len(parents) == 0 {
			return
		}
		parent := parents[r.Intn(len(parents))]
		inner := len(p.Phys)
		p.Phys = append(p.Phys, filepath.Join(p.Phys[parent], "inner.d"))
		p.Exists = append(p.Exists, true)
		for k := 0; k < 1+r.Intn(3); k++ {
			name := specFileNames[r.Intn(len(specFileNames))]
			if p.find(inner, name) < 0 {
				p.Files = append(p.Files, p.newValidFile(r, inner, name))
			}
		}
		// the inner directory anywhere in the list: before the outer one, after it, both
		at := r.Intn(len(p.ConfPhys) + 1)
		p.ConfPhys = append(p.ConfPhys[:at:at], append([]int{inner}, p.ConfPhys[at:]...)...)
		p.Conf = append(p.Conf[:at:at], append([]string{pickStr(r, p.Phys[inner], p.Phys[inner]+"/", p.Phys[parent]+"/./inner.d")}, p.Conf[at:]...)...)
		p.Write()
		cache, _ := cdi.NewCache(cdi.WithSpecDirs(p.Conf...), cdi.WithAutoRefresh(false))
		history := []string{"initial (a configured directory inside another one)"}
		for k := 0; k < 2; k++ {
			if k > 0 {
				history = append(history, p.Relist(r, -1))
				o, ru := withDirs(p.Conf)
				cache.Configure(o)
				ru()
			}
			res := p.Resolve()
			c01Note(c, res)
			c.Count("comparisons_with_nested_configured_directories", 1)
			if bad := compareCache(cache, res, true); len(bad) > 0 {
				cs.Violation("resolution", map[string]string{"mode": "manual", "shape": "nested"}, bad[0], map[string]any{"discrepancies": bad, "population": p.Describe(), "history": history})
				return
			}
		}
	})
	// auto-refresh mode
	c.RunCases("auto", nAuto, 4, func(cs *Case) {
		r := cs.R
		root := filepath.Join(c.Scratch, sanitize(cs.Name))
		must(os.MkdirAll(root, 0o755))
		defer os.RemoveAll(root)
		p := genPop(r, root)
		// the anchor is a real, empty, lowest-priority configured directory
		anchor := filepath.Join(root, "anchor")
		p.Phys = append(p.Phys, anchor)
		p.Exists = append(p.Exists, true)
		p.Conf = append([]string{anchor}, p.Conf...)
		p.ConfPhys = append([]int{len(p.Phys) - 1}, p.ConfPhys...)
		p.Protect = len(p.Phys) - 1
		p.Write()
		history := []string{"initial"}
		// sometimes a change step is made from inside the directory scan of the
		// constructor or of a reconfiguration (the watch and the scan together must
		// not let it slip through)
		var armed atomic.Bool
		unhook := hookPrefix(root, func(point, arg string, _ int) {
			if point == "scan.beforeRead" && armed.CompareAndSwap(true, false) {
				history = append(history, "from inside the scan, at "+filepath.Base(arg)+": "+p.Step(r))
				c.Count("change_steps_made_inside_a_scan", 1)
			}
		})
		defer unhook()
		armed.Store(chance(r, 30))
		a, err := newAutoCache(root, anchor, p.Conf)
		armed.Store(false)
		if err != nil {
			c.Inconclusive("no-inotify")
			return
		}
		defer a.Close()
		if len(history) > 1 {
			if !a.Quiesce() {
				c.Inconclusive("quiesce-timeout")
				return
			}
			a.C.Refresh()
		}
		steps := 1 + r.Intn(4)
		var ci int
		fmt.Sscanf(cs.Name, "auto:%d", &ci)
		if ci%4 == 0 {
			// whatever the PRNG says: a directory leaves (removed, or renamed away with all
			// its content), comes back with a file in it, and gets another file
			p.Force, p.ForceRenameAway, steps = []int{6, 7, 0}, ci%8 == 0, 3
			c.Count("auto_histories_with_a_directory_that_leaves_and_comes_back", 1)
		}
		for k := 0; k <= steps; k++ {
			if k > 0 && len(p.Force) == 0 && chance(r, 25) {
				history = append(history, p.Relist(r, p.Protect))
				c.Count("reconfigurations_auto", 1)
				o, ru := withDirs(p.Conf)
				armed.Store(chance(r, 30))
				n := len(history)
				a.C.Configure(o)
				armed.Store(false)
				ru()
				if len(history) > n {
					if !a.Quiesce() {
						c.Inconclusive("quiesce-timeout")
						return
					}
					a.C.Refresh()
				}
			} else if k > 0 {
				history = append(history, p.Step(r))
				if !a.Quiesce() {
					c.Inconclusive("quiesce-timeout")
					return
				}
				a.C.Refresh()
			}
			res := p.Resolve()
			c01Note(c, res)
			c.Count("comparisons_auto", 1)
			bad := compareCache(a.C, res, false)
			if len(bad) > 0 {
				cs.Violation("resolution", map[string]string{"mode": "auto"}, bad[0], map[string]any{"discrepancies": bad, "population": p.Describe(), "history": history, "watcher_events": a.EventCounts()})
				return
			}
		}
		ev := a.EventCounts()
		var n int64
		for k, v := range ev {
			c.Count("watcher_event:"+k, int(v))
			n += v
		}
		if n == 0 {
			c.Count("auto_histories_without_events", 1)
		}
		c.Sample(5, map[string]any{"mode": "auto", "history": history, "watcher_events": ev})
	})
	for _, k := range []string{"shape:shadowing", "shape:conflict_at_top", "shape:conflict_below_higher_definition", "shape:repeated_directory", "shape:missing_directory", "shape:invalid_file_with_shadowing", "shape:fifo_or_link_to_directory_entry"} {
		c.Floor(k, 5)
	}
	c.Floor("comparisons_auto", 20)
	c.Floor("empty_directory_lists", 20)
	c.Floor("reconfigurations", 20)
	c.Floor("reconfigurations_auto", 5)
	c.Floor("watcher_event:CREATE", 1)
}
