package main

// C10 — Spec files are published atomically. Four instruments:
//  1. syscall-granular crash enumeration (strace SIGKILL injection, no hooks)
//  2. write failure at every byte offset (RLIMIT_FSIZE), ENOSPC (tmpfs),
//     rename failure, errno injection on every syscall of the writer
//  3. raw inotify trace + sampling readers during concurrent overwrites
//  4. deterministic reader interleaving at the write.* hook points

import (
	"bytes"
	"encoding/json"
	"fmt"
	"os"
	"os/exec"
	"path/filepath"
	"regexp"
	"runtime"
	"sort"
	"strconv"
	"strings"
	"sync"
	"sync/atomic"
	"syscall"
	"time"
	"unsafe"

	"golang.org/x/sys/unix"
	"tags.cncf.io/container-device-interface/pkg/cdi"
	specs "tags.cncf.io/container-device-interface/specs-go"
)

func init() {
	register("C10", checkC10)
	registerChild("c10write", childC10Write)
	// the writer child keeps its main goroutine on the main OS thread, so that
	// strace's per-thread syscall counters address its file-system operations
	if len(os.Args) > 1 && os.Args[1] == "child-c10write" {
		runtime.LockOSThread()
	}
}

const c10Syscalls = "openat,open,creat,mkdirat,mkdir,write,pwrite64,writev,close,renameat2,renameat,rename,unlinkat,unlink,linkat,link,symlinkat,fsync,fdatasync,ftruncate,truncate,fchmod,fchmodat,copy_file_range,sendfile"

// childC10Write: child-c10write <dir> <name> <spec.json> [fsize]
// exit 0: WriteSpec returned nil; 3: it returned an error; other: trouble.
func childC10Write(args []string) int {
	dir, name, specFile := args[0], args[1], args[2]
	fsize := int64(-1)
	if len(args) > 3 {
		fsize, _ = strconv.ParseInt(args[3], 10, 64)
	}
	data, err := os.ReadFile(specFile)
	if err != nil {
		return 4
	}
	var spec specs.Spec
	if err := json.Unmarshal(data, &spec); err != nil {
		return 4
	}
	cache, _ := cdi.NewCache(cdi.WithSpecDirs(dir), cdi.WithAutoRefresh(false))
	var old unix.Rlimit
	if fsize >= 0 {
		unix.Getrlimit(unix.RLIMIT_FSIZE, &old)
		lim := old
		lim.Cur = uint64(fsize)
		if err := unix.Setrlimit(unix.RLIMIT_FSIZE, &lim); err != nil {
			return 5
		}
	}
	syscall.Write(1, []byte("VERIF-MARK-BEGIN\n"))
	werr := cache.WriteSpec(&spec, name)
	syscall.Write(1, []byte("VERIF-MARK-END\n"))
	if fsize >= 0 {
		unix.Setrlimit(unix.RLIMIT_FSIZE, &old)
	}
	if werr != nil && len(args) > 4 && args[4] == "then-second" {
		// the same cache writes another Spec after the failure: nothing of the failed
		// write may turn up in it. Reference bytes: the same Spec written by a fresh
		// cache into a directory of its own.
		second := specs.Spec{Version: "0.6.0", Kind: "vendor.com/gpu", Devices: []specs.Device{{Name: "second", ContainerEdits: specs.ContainerEdits{Env: []string{"SECOND=1"}}}}}
		sname := "second" + filepath.Ext(name)
		refDir, _ := os.MkdirTemp(filepath.Dir(dir), "ref")
		defer os.RemoveAll(refDir)
		ref, _ := cdi.NewCache(cdi.WithSpecDirs(refDir), cdi.WithAutoRefresh(false))
		if ref.WriteSpec(&second, sname) != nil {
			return 4
		}
		if filepath.Ext(sname) == "" {
			sname += ".yaml"
		}
		want, _ := os.ReadFile(filepath.Join(refDir, sname))
		serr := cache.WriteSpec(&second, sname)
		got, _ := os.ReadFile(filepath.Join(dir, sname))
		os.Remove(filepath.Join(dir, sname))
		if serr != nil || !bytes.Equal(got, want) || len(want) == 0 {
			fmt.Printf("SECOND-WRITE: err=%v, file holds %d bytes, expected %d: %q\n", serr, len(got), len(want), clip(string(got), 300))
			return 7
		}
	}
	if werr != nil {
		return 3
	}
	return 0
}

type straceCall struct {
	name    string
	ordinal int // n-th entry of this syscall on the main thread since process start
	line    string
}

var reStraceEntry = regexp.MustCompile(`^(\d+)\s+(\w+)\(`)

// parseMainThread returns the syscall entries of the main thread and the
// indices of the two marker writes.
func parseMainThread(log string) (calls []straceCall, begin, end int, killed bool) {
	begin, end = -1, -1
	mainPid := ""
	count := map[string]int{}
	for _, line := range strings.Split(log, "\n") {
		if strings.Contains(line, "+++ killed by SIGKILL") {
			killed = true
		}
		m := reStraceEntry.FindStringSubmatch(line)
		if m == nil {
			continue
		}
		if mainPid == "" {
			mainPid = m[1]
		}
		if m[1] != mainPid {
			continue
		}
		count[m[2]]++
		calls = append(calls, straceCall{m[2], count[m[2]], line})
		if m[2] == "write" && strings.Contains(line, "VERIF-MARK-BEGIN") {
			begin = len(calls) - 1
		}
		if m[2] == "write" && strings.Contains(line, "VERIF-MARK-END") {
			end = len(calls) - 1
		}
	}
	return
}

type c10Scenario struct {
	name     string
	enc      string
	prev     bool
	link     string // with prev: the previous file is a symbolic link ("rel": to a plain file next to it, "abs": to a file elsewhere)
	big      bool
	dir      string
	specFile string
	target   string
	oldData  []byte
	newData  []byte
	oldSpec  *specs.Spec
	newSpec  *specs.Spec
}

func c10Spec(tag string, big bool, huge ...bool) *specs.Spec {
	s := &specs.Spec{Version: "0.6.0", Kind: "vendor.com/gpu", Devices: []specs.Device{{Name: "dev0", ContainerEdits: specs.ContainerEdits{Env: []string{"CONTENT=" + tag}}}}}
	if big {
		n := 900
		if len(huge) > 0 && huge[0] {
			n = 24000 // ~1.5 MiB
		}
		for i := 0; i < n; i++ {
			s.Devices[0].ContainerEdits.Env = append(s.Devices[0].ContainerEdits.Env, fmt.Sprintf("PAD_%s_%04d=%s", tag, i, strings.Repeat("x", 50)))
		}
	}
	return s
}

func (sc *c10Scenario) reset() {
	os.RemoveAll(sc.dir)
	must(os.MkdirAll(sc.dir, 0o755))
	sc.putPrev()
}

// linkTarget is where the previous content lives when the Spec name is a link.
func (sc *c10Scenario) linkTarget() string {
	if sc.link == "abs" {
		return filepath.Join(filepath.Dir(sc.dir), "elsewhere-prev.data")
	}
	return filepath.Join(sc.dir, "prev-target.data")
}

func (sc *c10Scenario) putPrev() {
	if !sc.prev {
		return
	}
	if sc.link == "" {
		must(os.WriteFile(sc.target, sc.oldData, 0o644))
		return
	}
	must(os.WriteFile(sc.linkTarget(), sc.oldData, 0o644))
	to := sc.linkTarget()
	if sc.link == "rel" {
		to = filepath.Base(to)
	}
	must(os.Symlink(to, sc.target))
}

// dirOracle checks the directory after a crashed/failed/completed write.
// mayBeNew: whether the new content is an admissible outcome.
func (sc *c10Scenario) dirOracle() (bad []string, state string) {
	entries, err := os.ReadDir(sc.dir)
	if err != nil {
		return []string{"cannot read the directory: " + err.Error()}, "?"
	}
	var names []string
	for _, e := range entries {
		name := e.Name()
		names = append(names, name)
		ext := filepath.Ext(name)
		if ext != ".json" && ext != ".yaml" {
			continue
		}
		data, err := os.ReadFile(filepath.Join(sc.dir, name))
		if err != nil {
			bad = append(bad, fmt.Sprintf("Spec-named entry %s cannot be read: %v", name, err))
			continue
		}
		switch {
		case name == filepath.Base(sc.target) && sc.prev && bytes.Equal(data, sc.oldData):
			state = "old"
		case name == filepath.Base(sc.target) && bytes.Equal(data, sc.newData):
			state = "new"
		default:
			bad = append(bad, fmt.Sprintf("Spec-named file %s holds %d bytes that are neither the complete previous (%d bytes) nor the complete new content (%d bytes): %q", name, len(data), len(sc.oldData), len(sc.newData), clip(string(data), 200)))
		}
	}
	if sc.prev && sc.link != "" {
		// the file the previous link points to is somebody else's: never written through
		if data, err := os.ReadFile(sc.linkTarget()); err != nil || !bytes.Equal(data, sc.oldData) {
			bad = append(bad, fmt.Sprintf("the file the previous symbolic link pointed to was written through or removed (%d bytes now, %d before; err=%v)", len(data), len(sc.oldData), err))
		}
	}
	if state == "" {
		state = "absent"
		if sc.prev {
			bad = append(bad, fmt.Sprintf("the previous Spec file is gone and the new one is not there (entries: %v)", names))
		}
	}
	// what a cache sees
	cache, _ := cdi.NewCache(cdi.WithSpecDirs(sc.dir), cdi.WithAutoRefresh(false))
	if errs := cache.GetErrors(); len(errs) > 0 {
		bad = append(bad, fmt.Sprintf("a cache on the directory reports errors: %v", errs))
	}
	d := cache.GetDevice("vendor.com/gpu=dev0")
	switch {
	case d == nil && state != "absent":
		bad = append(bad, "a cache on the directory does not resolve the device although a Spec file is present")
	case d != nil:
		got := normJSON(d.Device)
		if !(sc.prev && got == normJSON(sc.oldSpec.Devices[0])) && got != normJSON(sc.newSpec.Devices[0]) {
			bad = append(bad, "a cache on the directory resolves the device to something that is neither the old nor the new definition")
		}
	}
	for _, dev := range cache.ListDevices() {
		if dev != "vendor.com/gpu=dev0" {
			bad = append(bad, "unexpected device loadable from the directory: "+dev)
		}
	}
	sort.Strings(names)
	state += " " + strings.Join(classifyNames(names), ",")
	return
}

func classifyNames(names []string) []string {
	var out []string
	for _, n := range names {
		switch {
		case strings.HasPrefix(n, "spec.") && strings.HasSuffix(n, ".tmp"):
			out = append(out, "spec.N.tmp")
		default:
			out = append(out, n)
		}
	}
	return out
}

var c10Stems = []string{"target", "vendor.com-gpu_batch-*", "t*.x*", "sp?c[1]", "%s%d", "tar get", "-dash", "x.y.z"}

func checkC10(c *Ctx) {
	c.Level = "fault_enumeration"
	c.Rule = "for {previous file present, absent} x {json, yaml} x {small, ~64 KiB} Specs: (1) one WriteSpec in a child under strace, the writer thread's file-system syscalls between two markers enumerated from a dry run, one run per syscall with SIGKILL injected on entry (and on entry to the end marker); (2) write failure at every/sampled byte offset with a soft RLIMIT_FSIZE, ENOSPC on a 64 KiB tmpfs, rename onto a non-empty directory, and EIO/ENOSPC/EACCES injected into each syscall of the sequence; (3) raw inotify trace of the directory plus sampling readers and a refreshing cache during repeated concurrent overwrites; (4) a complete reader observation at each write.* hook point; oracle everywhere: every Spec-named entry is byte-equal to the complete old or complete new content, a fresh cache reports no error and resolves old or new, leftovers are not loadable; distinct_nontrivial = distinct (scenario, instrument, crash point / fault / offset class, resulting directory state)"
	c.Assume("crash = process death (page cache survives); durability across power loss is outside the property", "atomicity of rename(2) itself is trusted", "strace delivers an injected SIGKILL on entry to the syscall, before it takes effect (probed)")
	if _, err := exec.LookPath("strace"); err != nil {
		c.HarnessError("strace not found")
		return
	}
	exe, _ := os.Executable()
	var scenarios []*c10Scenario
	type c10Combo struct {
		enc  string
		prev bool
		big  bool
		link string
	}
	var combos []c10Combo
	for _, enc := range []string{"json", "yaml"} {
		for _, prev := range []bool{true, false} {
			for _, big := range []bool{false, true} {
				combos = append(combos, c10Combo{enc, prev, big, ""})
			}
		}
	}
	// the previous file is a symbolic link (which the scan loads like a file)
	combos = append(combos, c10Combo{"json", true, false, "rel"}, c10Combo{"json", true, true, "abs"}, c10Combo{"yaml", true, false, "abs"}, c10Combo{"yaml", true, true, "rel"})
	// new content of more than a MiB (size is no excuse, for the writer or for whoever reads)
	combos = append(combos, c10Combo{"yaml", true, true, "huge"}, c10Combo{"json", false, true, "huge"})
	for _, cb := range combos {
		{
			{
				enc, prev, big := cb.enc, cb.prev, cb.big
				sc := &c10Scenario{enc: enc, prev: prev, big: big, link: cb.link}
				huge := cb.link == "huge"
				if huge {
					sc.link = ""
				}
				sc.name = fmt.Sprintf("%s-prev%v-big%v", enc, prev, big)
				if cb.link != "" {
					sc.name += "-link" + cb.link
				}
				if huge {
					sc.name = fmt.Sprintf("%s-prev%v-huge", enc, prev)
				}
				sc.dir = filepath.Join(c.Scratch, "s-"+sc.name, "specs")
				// the Spec name is the caller's: characters that mean something to a
				// pattern, a format or a shell must not leak into how the file is staged
				stem := c10Stems[len(scenarios)%len(c10Stems)]
				sc.target = filepath.Join(sc.dir, stem+"."+enc)
				sc.oldSpec, sc.newSpec = c10Spec("old", false), c10Spec("new", big, huge)
				sc.oldData = specBytes(sc.oldSpec, enc)
				sc.specFile = filepath.Join(c.Scratch, "s-"+sc.name, "new-spec.json")
				must(os.MkdirAll(filepath.Dir(sc.specFile), 0o755))
				b, _ := json.Marshal(sc.newSpec)
				must(os.WriteFile(sc.specFile, b, 0o644))
				scenarios = append(scenarios, sc)
			}
		}
	}
	states := map[string]int{}
	var stMu sync.Mutex
	note := func(s string) {
		stMu.Lock()
		states[s]++
		stMu.Unlock()
	}
	names := make([]string, len(scenarios))
	byName := map[string]*c10Scenario{}
	for i, sc := range scenarios {
		names[i] = "crash:" + sc.name
		byName[names[i]] = sc
	}
	// ---- instruments 1 and 2 (one scenario per worker; children are sequential inside)
	c.RunNamed(names, 8, func(cs *Case) {
		sc := byName[cs.Name]
		strace := func(logf string, inject string) (int, string) {
			args := []string{"-f", "-o", logf, "-e", "trace=" + c10Syscalls}
			if inject != "" {
				args = append(args, "-e", "inject="+inject)
			}
			args = append(args, exe, "child-c10write", sc.dir, filepath.Base(sc.target), sc.specFile)
			cmd := exec.Command("strace", args...)
			cmd.Stdout, cmd.Stderr = nil, nil
			err := cmd.Run()
			code := 0
			if ee, ok := err.(*exec.ExitError); ok {
				code = ee.ExitCode()
			} else if err != nil {
				code = -1
			}
			log, _ := os.ReadFile(logf)
			return code, string(log)
		}
		logf := filepath.Join(filepath.Dir(sc.specFile), "strace.log")
		// dry run
		sc.reset()
		code, log := strace(logf, "")
		calls, begin, end, _ := parseMainThread(log)
		if code != 0 || begin < 0 || end < 0 || end <= begin {
			cs.Violation("dry-run", nil, fmt.Sprintf("a plain WriteSpec in the child failed (exit %d) or its markers were not traced (%d,%d)", code, begin, end), map[string]any{"log_tail": clip(log[max(0, len(log)-3000):], 3000)})
			return
		}
		nd, err := os.ReadFile(sc.target)
		if err != nil {
			cs.Violation("dry-run", nil, "after a successful WriteSpec the target file does not exist: "+err.Error(), nil)
			return
		}
		sc.newData = nd
		if bad, _ := sc.dirOracle(); len(bad) > 0 {
			cs.Violation("completed-write", map[string]string{"scenario": sc.name}, "after a completed WriteSpec: "+bad[0], map[string]any{"discrepancies": bad})
			return
		}
		window := calls[begin+1 : end+1] // the operations of the write, plus the end marker (= after the last operation)
		var seq []string
		for _, w := range window[:len(window)-1] {
			seq = append(seq, w.name)
		}
		c.Extra("syscall_sequence:"+sc.name, strings.Join(seq, " "))
		// (1) kill on entry to each operation
		for i, w := range window {
			var killedOK bool
			for attempt := 0; attempt < 3 && !killedOK; attempt++ {
				sc.reset()
				_, klog := strace(logf, fmt.Sprintf("%s:signal=SIGKILL:when=%d", w.name, w.ordinal))
				kcalls, _, _, killed := parseMainThread(klog)
				// the kill must have preceded exactly this operation of the main thread
				if killed && len(kcalls) > 0 && kcalls[len(kcalls)-1].name == w.name && kcalls[len(kcalls)-1].ordinal == w.ordinal && len(kcalls) == begin+1+i+1 {
					killedOK = true
				}
			}
			if !killedOK {
				c.Inconclusive("kill-point-not-hit")
				continue
			}
			bad, state := sc.dirOracle()
			c.Count("crash_points", 1)
			note(fmt.Sprintf("%s|kill before %s#%d|%s", sc.name, w.name, i, state))
			c.Distinct(fmt.Sprintf("%s|kill|%d|%s", sc.name, i, state))
			if len(bad) > 0 {
				cs.Violation("crash", map[string]string{"scenario": sc.name, "point": w.name}, fmt.Sprintf("writer killed on entry to operation %d (%s) of [%s]: %s", i, w.name, strings.Join(seq, " "), bad[0]), map[string]any{"discrepancies": bad, "directory_state": state, "operation": w.line})
			}
		}
		// (2a) errno injected into each operation
		for i, w := range window[:len(window)-1] {
			for _, errno := range []string{"EIO", "ENOSPC", "EACCES"}[:c.pick(1, 3)] {
				sc.reset()
				code, elog := strace(logf, fmt.Sprintf("%s:error=%s:when=%d", w.name, errno, w.ordinal))
				if !strings.Contains(elog, "(INJECTED)") {
					c.Inconclusive("errno-not-injected")
					continue
				}
				bad, state := sc.dirOracle()
				c.Count("errno_injections", 1)
				note(fmt.Sprintf("%s|%s in %s#%d|exit%d|%s", sc.name, errno, w.name, i, code, state))
				c.Distinct(fmt.Sprintf("%s|errno|%s|%d|%s", sc.name, errno, i, state))
				if code == 0 && w.name != "close" && !strings.HasPrefix(state, "new") {
					bad = append(bad, fmt.Sprintf("WriteSpec reported success although %s failed with %s and the new content is not in place", w.name, errno))
				}
				if code != 0 && code != 3 {
					bad = append(bad, fmt.Sprintf("the writer exited with status %d", code))
				}
				if code == 0 && w.name == "write" {
					bad = append(bad, fmt.Sprintf("WriteSpec reported success although the write failed with %s", errno))
				}
				if len(bad) > 0 {
					cs.Violation("fault", map[string]string{"scenario": sc.name, "fault": errno + " in " + w.name}, fmt.Sprintf("%s injected into operation %d (%s): %s", errno, i, w.name, bad[0]), map[string]any{"discrepancies": bad, "directory_state": state, "exit": code})
				}
			}
		}
		// (2b) short write + EFBIG at byte offsets
		var offsets []int
		n := len(sc.newData)
		if c.Quick() || n > 4000 {
			seen := map[int]bool{}
			for _, k := range []int{0, 1, 2, n / 4, n / 2, n - 2, n - 1, n, n + 1, 4095, 4096, 4097, 8192, 65535, 65536} {
				if k >= 0 && k <= n+1 && !seen[k] {
					seen[k] = true
					offsets = append(offsets, k)
				}
			}
			for i := 0; i < c.pick(12, 120); i++ {
				k := cs.R.Intn(n + 1)
				if !seen[k] {
					seen[k] = true
					offsets = append(offsets, k)
				}
			}
		} else {
			for k := 0; k <= n+1; k++ {
				offsets = append(offsets, k)
			}
		}
		for _, k := range offsets {
			sc.reset()
			cmd := exec.Command(exe, "child-c10write", sc.dir, filepath.Base(sc.target), sc.specFile, strconv.Itoa(k), "then-second")
			cout, err := cmd.Output()
			code := 0
			if ee, ok := err.(*exec.ExitError); ok {
				code = ee.ExitCode()
			}
			bad, state := sc.dirOracle()
			c.Count("write_failure_offsets", 1)
			if code == 7 {
				i := strings.Index(string(cout), "SECOND-WRITE")
				bad = append(bad, "the next Spec written through the same cache after the failed write is not what a fresh cache writes: "+clip(string(cout[max(i, 0):]), 500))
				code = 3
			} else if code == 3 {
				c.Count("second_writes_after_a_failed_write", 1)
			}
			note(fmt.Sprintf("%s|fsize %s|exit%d|%s", sc.name, offClass(k, n), code, state))
			c.Distinct(fmt.Sprintf("%s|fsize|%s|%s", sc.name, offClass(k, n), state))
			if k < n && code == 0 {
				bad = append(bad, fmt.Sprintf("WriteSpec reported success although only %d of %d bytes could be written", k, n))
			}
			if k >= n && code != 0 {
				bad = append(bad, fmt.Sprintf("WriteSpec failed (exit %d) although the file size limit %d allows all %d bytes", code, k, n))
			}
			if len(bad) > 0 {
				cs.Violation("fault", map[string]string{"scenario": sc.name, "fault": "short-write"}, fmt.Sprintf("write limited to %d of %d bytes (EFBIG): %s", k, n, bad[0]), map[string]any{"discrepancies": bad, "directory_state": state, "exit": code})
				break
			}
		}
		// (2c) rename failure: the target name is a non-empty directory
		if !sc.prev {
			sc.reset()
			must(os.MkdirAll(filepath.Join(sc.target, "sub"), 0o755))
			cmd := exec.Command(exe, "child-c10write", sc.dir, filepath.Base(sc.target), sc.specFile)
			err := cmd.Run()
			code := 0
			if ee, ok := err.(*exec.ExitError); ok {
				code = ee.ExitCode()
			}
			entries, _ := os.ReadDir(sc.dir)
			var names []string
			for _, e := range entries {
				names = append(names, e.Name())
			}
			c.Count("rename_failures", 1)
			if code == 0 || len(names) != 1 {
				cs.Violation("fault", map[string]string{"scenario": sc.name, "fault": "rename"}, fmt.Sprintf("target occupied by a non-empty directory: WriteSpec exit %d, directory entries afterwards %v (expected an error and only the directory)", code, names), nil)
			}
			os.RemoveAll(sc.target)
		}
		// (2d) a real ENOSPC on a tiny tmpfs
		for _, stale := range []bool{false, true} {
			if !sc.big {
				break
			}
			sc.reset()
			size := "size=32k"
			if stale {
				// room for the new file only once an old writer's leftover is out of the way
				size = "size=256k"
			}
			if err := unix.Mount("tmpfs", sc.dir, "tmpfs", 0, size); err != nil {
				c.Count("enospc_skipped_mount_refused", 1)
			} else {
				sc.putPrev()
				if stale {
					left := filepath.Join(sc.dir, "spec.424242.tmp")
					must(os.WriteFile(left, bytes.Repeat([]byte("#stale\n"), 200*1024/7), 0o600))
					old := time.Now().Add(-2 * time.Hour)
					os.Chtimes(left, old, old)
					c.Count("enospc_runs_with_a_stale_leftover", 1)
				}
				cmd := exec.Command(exe, "child-c10write", sc.dir, filepath.Base(sc.target), sc.specFile)
				err := cmd.Run()
				code := 0
				if ee, ok := err.(*exec.ExitError); ok {
					code = ee.ExitCode()
				}
				bad, state := sc.dirOracle()
				unix.Unmount(sc.dir, unix.MNT_DETACH)
				c.Count("enospc_runs", 1)
				note(fmt.Sprintf("%s|ENOSPC tmpfs|exit%d|%s", sc.name, code, state))
				if code == 0 {
					bad = append(bad, "WriteSpec reported success on a file system too small for the file")
				}
				if len(bad) > 0 {
					cs.Violation("fault", map[string]string{"scenario": sc.name, "fault": "ENOSPC"}, "disk full while writing: "+bad[0], map[string]any{"discrepancies": bad, "directory_state": state})
				}
			}
		}
	})
	// ---- instrument 4: reader observation at every write.* hook point
	c.RunCases("hook", len(scenarios), 0, func(cs *Case) {
		var i int
		fmt.Sscanf(cs.Name, "hook:%d", &i)
		sc := *scenarios[i]
		sc.dir = filepath.Join(c.Scratch, "h-"+sc.name, "specs")
		sc.target = filepath.Join(sc.dir, filepath.Base(sc.target))
		sc.reset()
		if sc.newData == nil {
			return
		}
		var points []string
		unhook := hookPrefix(filepath.Dir(sc.dir), func(point, arg string, n int) {
			if !strings.HasPrefix(point, "write.") {
				return
			}
			points = append(points, point)
			bad, state := sc.dirOracle()
			c.Count("hook_observations", 1)
			c.Distinct(fmt.Sprintf("%s|hook|%s|%s", sc.name, point, state))
			if len(bad) > 0 {
				cs.Violation("reader-interleaving", map[string]string{"scenario": sc.name, "point": point}, fmt.Sprintf("a reader running when the writer is at %s: %s", point, bad[0]), map[string]any{"discrepancies": bad, "directory_state": state})
			}
		})
		cache, _ := cdi.NewCache(cdi.WithSpecDirs(sc.dir), cdi.WithAutoRefresh(false))
		err := cache.WriteSpec(cloneSpec(sc.newSpec), filepath.Base(sc.target))
		unhook()
		if err != nil {
			cs.Violation("completed-write", nil, "WriteSpec failed: "+err.Error(), nil)
		}
		c.Extra("hook_points:"+sc.name, strings.Join(points, " "))
	})
	// ---- instrument 3: raw inotify trace during concurrent overwrites
	c.RunCases("inotify", 4, 4, func(cs *Case) { c10Inotify(cs) })
	stMu.Lock()
	c.Extra("directory_states_observed", states)
	stMu.Unlock()
	c.Sample(1, map[string]any{"instrument": "kill", "example": "json-prevtrue: writer killed on entry to renameat2 -> directory holds the complete old file and spec.N.tmp; killed on entry to the end marker -> the complete new file"})
	c.Floor("crash_points", 30)
	c.Floor("write_failure_offsets", 50)
	c.Floor("errno_injections", 20)
	// (no floor on hook_observations: instruments 1-3 do not depend on the hook lines being present)
	c.Floor("inotify_events", 100)
	c.Floor("reader_observations", 100)
}

func offClass(k, n int) string {
	switch {
	case k == 0:
		return "0"
	case k < n/2:
		return "first-half"
	case k < n:
		return "second-half"
	case k == n:
		return "exact"
	}
	return "beyond"
}

// c10Inotify: writers overwrite one Spec name with alternating contents while a
// raw inotify watch records what happens to the name and readers sample it.
func c10Inotify(cs *Case) {
	c := cs.Ctx
	var idx int
	fmt.Sscanf(cs.Name, "inotify:%d", &idx)
	enc := []string{"json", "yaml"}[idx%2]
	big := idx >= 2
	dir := filepath.Join(c.Scratch, "i-"+cs.Name[8:], "specs")
	must(os.MkdirAll(dir, 0o755))
	name := c10Stems[(idx+1)%len(c10Stems)] + "." + enc
	target := filepath.Join(dir, name)
	// the two contents differ in size and neither is a prefix of the other
	specA, specB := c10Spec("A", big), c10Spec("B", !big)
	specB.Devices = append(specB.Devices, specs.Device{Name: "extra", ContainerEdits: specs.ContainerEdits{Env: []string{"ONLY_IN=B"}}})
	normA, normB := normJSON(specA), normJSON(specB)
	cache, _ := cdi.NewCache(cdi.WithSpecDirs(dir), cdi.WithAutoRefresh(false))
	// learn the two admissible contents
	must(cache.WriteSpec(cloneSpec(specA), name))
	dataA, _ := os.ReadFile(target)
	must(cache.WriteSpec(cloneSpec(specB), name))
	dataB, _ := os.ReadFile(target)
	// a second name, written at the same time through a cache of its own (whatever two
	// writers share - a directory, a process - their files are theirs)
	otherName := "zz-other." + enc
	specC, specD := c10Spec("C", !big), c10Spec("D", big)
	specC.Kind, specD.Kind = "other.org/dev", "other.org/dev"
	must(cache.WriteSpec(cloneSpec(specC), otherName))
	dataC, _ := os.ReadFile(filepath.Join(dir, otherName))
	must(cache.WriteSpec(cloneSpec(specD), otherName))
	dataD, _ := os.ReadFile(filepath.Join(dir, otherName))
	fd, err := unix.InotifyInit1(unix.IN_CLOEXEC)
	if err != nil {
		c.Inconclusive("no-inotify")
		return
	}
	defer unix.Close(fd)
	if _, err := unix.InotifyAddWatch(fd, dir, unix.IN_MODIFY|unix.IN_CLOSE_WRITE|unix.IN_MOVED_TO|unix.IN_MOVED_FROM|unix.IN_CREATE|unix.IN_DELETE|unix.IN_OPEN); err != nil {
		c.Inconclusive("no-inotify")
		return
	}
	var stop atomic.Bool
	hist := map[string]int64{}
	var bad []string
	var evMu sync.Mutex
	var wg sync.WaitGroup
	wg.Add(1)
	go func() {
		defer wg.Done()
		buf := make([]byte, 1<<16)
		for {
			pfd := []unix.PollFd{{Fd: int32(fd), Events: unix.POLLIN}}
			n, _ := unix.Poll(pfd, 100)
			if n <= 0 {
				if stop.Load() {
					return
				}
				continue
			}
			nr, err := unix.Read(fd, buf)
			if err != nil || nr <= 0 {
				return
			}
			for off := 0; off+unix.SizeofInotifyEvent <= nr; {
				ev := (*unix.InotifyEvent)(unsafe.Pointer(&buf[off]))
				nm := strings.TrimRight(string(buf[off+unix.SizeofInotifyEvent:off+unix.SizeofInotifyEvent+int(ev.Len)]), "\x00")
				off += unix.SizeofInotifyEvent + int(ev.Len)
				class := "other"
				if ext := filepath.Ext(nm); ext == ".json" || ext == ".yaml" {
					class = "spec-name"
				} else if strings.HasSuffix(nm, ".tmp") {
					class = "tmp-name"
				}
				evMu.Lock()
				for _, mk := range []struct {
					bit  uint32
					name string
				}{{unix.IN_MODIFY, "IN_MODIFY"}, {unix.IN_CLOSE_WRITE, "IN_CLOSE_WRITE"}, {unix.IN_MOVED_TO, "IN_MOVED_TO"}, {unix.IN_MOVED_FROM, "IN_MOVED_FROM"}, {unix.IN_CREATE, "IN_CREATE"}, {unix.IN_DELETE, "IN_DELETE"}} {
					if ev.Mask&mk.bit != 0 {
						hist[class+":"+mk.name]++
						// a Spec name open for writing: a reader could see a partial file
						if class == "spec-name" && (mk.bit == unix.IN_MODIFY || mk.bit == unix.IN_CLOSE_WRITE) && len(bad) < 5 {
							bad = append(bad, fmt.Sprintf("%s on %s: the Spec name itself was written to in place", mk.name, nm))
						}
					}
				}
				evMu.Unlock()
			}
		}
	}()
	// readers
	var readerBad []string
	var rbMu sync.Mutex
	var observations [3]atomic.Int64 // absent, A, B
	var libraryReads atomic.Int64
	for rd := 0; rd < 4; rd++ {
		wg.Add(1)
		go func(rd int) {
			defer wg.Done()
			rcache, _ := cdi.NewCache(cdi.WithSpecDirs(dir), cdi.WithAutoRefresh(false))
			for !stop.Load() {
				if rd == 0 {
					// a refreshing cache
					rcache.Refresh()
					d := rcache.GetDevice("vendor.com/gpu=dev0")
					errs := rcache.GetErrors()
					rbMu.Lock()
					if len(errs) > 0 && len(readerBad) < 5 {
						readerBad = append(readerBad, fmt.Sprintf("a concurrently refreshing cache reports errors: %v", errs))
					}
					if d != nil {
						if got := normJSON(d.Device); got != normJSON(specA.Devices[0]) && got != normJSON(specB.Devices[0]) && len(readerBad) < 5 {
							readerBad = append(readerBad, "a concurrently refreshing cache resolved the device to neither published definition")
						}
					} else if len(readerBad) < 5 {
						readerBad = append(readerBad, "a concurrently refreshing cache lost the device although the Spec name is never absent")
					}
					rbMu.Unlock()
					continue
				}
				if rd == 1 {
					// the library's own reader: the Spec name is never absent after the first
					// write, so every read must succeed and yield exactly one of the two Specs
					rs, err := cdi.ReadSpec(target, 0)
					libraryReads.Add(1)
					rbMu.Lock()
					switch {
					case err != nil:
						if len(readerBad) < 5 {
							readerBad = append(readerBad, "cdi.ReadSpec of the Spec name failed during concurrent overwrites: "+err.Error())
						}
					default:
						if got := normJSON(rs.Spec); got != normA && got != normB && len(readerBad) < 5 {
							readerBad = append(readerBad, fmt.Sprintf("cdi.ReadSpec returned a Spec that is neither of the two published ones (%d devices)", len(rs.Devices)))
						}
					}
					rbMu.Unlock()
					continue
				}
				entries, _ := os.ReadDir(dir)
				for _, e := range entries {
					ext := filepath.Ext(e.Name())
					if ext != ".json" && ext != ".yaml" {
						continue
					}
					data, err := os.ReadFile(filepath.Join(dir, e.Name()))
					if err != nil {
						continue // replaced between listing and opening: fine
					}
					switch {
					case e.Name() == otherName && (bytes.Equal(data, dataC) || bytes.Equal(data, dataD)):
						observations[0].Add(1)
					case e.Name() != otherName && bytes.Equal(data, dataA):
						observations[1].Add(1)
					case e.Name() != otherName && bytes.Equal(data, dataB):
						observations[2].Add(1)
					default:
						rbMu.Lock()
						if len(readerBad) < 5 {
							readerBad = append(readerBad, fmt.Sprintf("a reader found %d bytes under %s that are neither complete content (%d / %d bytes)", len(data), e.Name(), len(dataA), len(dataB)))
						}
						rbMu.Unlock()
					}
				}
			}
		}(rd)
	}
	// writers (three, racing on the same name: two of them through one cache object,
	// the third through a cache of its own)
	n := c.pick(600, 12000)
	var ww sync.WaitGroup
	sharedCache, _ := cdi.NewCache(cdi.WithSpecDirs(dir), cdi.WithAutoRefresh(false))
	for w := 0; w < 4; w++ {
		ww.Add(1)
		go func(w int) {
			defer ww.Done()
			wc := sharedCache
			if w >= 2 {
				wc, _ = cdi.NewCache(cdi.WithSpecDirs(dir), cdi.WithAutoRefresh(false))
			}
			for i := 0; i < n/3; i++ {
				s, name := specA, name
				if (i+w)%2 == 0 {
					s = specB
				}
				if w == 3 {
					// (the fourth writer has a name and a cache of its own)
					s, name = specC, otherName
					if i%2 == 0 {
						s = specD
					}
				}
				if err := wc.WriteSpec(cloneSpec(s), name); err != nil {
					rbMu.Lock()
					if len(readerBad) < 5 {
						readerBad = append(readerBad, "WriteSpec failed during concurrent overwrites: "+err.Error())
					}
					rbMu.Unlock()
				}
			}
		}(w)
	}
	ww.Wait()
	time.Sleep(50 * time.Millisecond)
	stop.Store(true)
	wg.Wait()
	evMu.Lock()
	var total int64
	for k, v := range hist {
		c.Count("inotify:"+k, int(v))
		total += v
	}
	c.Count("inotify_events", int(total))
	c.Count("overwrites", n)
	c.Count("reader_observations", int(observations[1].Load()+observations[2].Load()))
	c.Count("library_reader_observations", int(libraryReads.Load()))
	c.Distinct(fmt.Sprintf("inotify|%s|%v", enc, big))
	for k := range hist {
		c.Distinct("inotify-event|" + enc + "|" + k)
	}
	if len(bad) > 0 {
		cs.Violation("in-place-write", map[string]string{"encoding": enc}, bad[0], map[string]any{"events": hist, "all": bad})
	}
	evMu.Unlock()
	if len(readerBad) > 0 {
		cs.Violation("reader-saw-partial", map[string]string{"encoding": enc}, readerBad[0], map[string]any{"all": readerBad, "events": hist})
	}
	c.Sample(2, map[string]any{"instrument": "inotify", "encoding": enc, "overwrites": n, "event_histogram": hist, "reader_observations_A_B": []int64{observations[1].Load(), observations[2].Load()}})
}
