package main

// C17 — the builtin schema validator decides exactly what the shipped schema
// files say. Reference model: M-SCHEMA (model_schema.go) reading the shipped
// files; every entry point x encoding x schema configuration is compared.

import (
	"bytes"
	"encoding/json"
	"errors"
	"fmt"
	"io"
	"math/rand"
	"os"
	"os/exec"
	"path/filepath"
	"sort"
	"strings"
	"sync"
	"sync/atomic"
	"testing/iotest"

	"tags.cncf.io/container-device-interface/schema"
	specs "tags.cncf.io/container-device-interface/specs-go"
)

func init() {
	register("C17", checkC17)
	registerChild("c17first", childC17First)
}

// childC17First: the very first uses of the builtin schema in this process
// happen concurrently; prints how many of them gave the wrong verdict.
func childC17First(args []string) int {
	good := []byte(`{"cdiVersion":"0.6.0","kind":"v.com/c","devices":[{"name":"d","containerEdits":{"env":["A=b"]}}]}`)
	bad := [][]byte{[]byte("{}"), []byte(`{"cdiVersion":"0.6.0","kind":"v.com/c","devices":[{"name":"d"}]}`), []byte("cdiVersion: 1\n")}
	const workers = 32
	var wrong atomic.Int64
	start := make(chan struct{})
	var wg sync.WaitGroup
	for w := 0; w < workers; w++ {
		wg.Add(1)
		go func(w int) {
			defer wg.Done()
			<-start
			s := schema.BuiltinSchema()
			if w%2 == 0 {
				if s.ValidateData(bad[w%len(bad)]) == nil {
					wrong.Add(1)
				}
			} else if s.ValidateData(good) != nil {
				wrong.Add(1)
			}
		}(w)
	}
	close(start)
	wg.Wait()
	fmt.Printf("WRONG %d OF %d\n", wrong.Load(), workers)
	return 0
}

type docSlot struct {
	parent any // *OMap or *[]any holder
	key    string
	idx    int
	path   string
	list   *[]any
}

func collectSlots(v any, path string, out *[]docSlot) {
	switch x := v.(type) {
	case *OMap:
		for i, k := range x.K {
			*out = append(*out, docSlot{parent: x, key: k, idx: i, path: path + "/" + k})
			if l, ok := x.V[i].([]any); ok {
				lp := &l
				for j := range l {
					*out = append(*out, docSlot{parent: x, key: k, idx: j, path: fmt.Sprintf("%s/%s/%d", path, k, j), list: lp})
				}
				for j := range l {
					collectSlots(l[j], fmt.Sprintf("%s/%s/%d", path, k, j), out)
				}
			} else {
				collectSlots(x.V[i], path+"/"+k, out)
			}
		}
	}
}

var c17Replacements = []any{nil, true, false, 0, -1, RawNum("1.5"), "str", "", []any{}, []any{"x"}, []any{1}, &OMap{}, om("k", "v"), RawNum("4294967296"), RawNum("-9223372036854775809"), []any{nil}}
var c17Numbers = []any{RawNum("-9223372036854775809"), RawNum("-9223372036854775808"), -1, 0, 1, RawNum("4294967295"), RawNum("4294967296"), RawNum("9223372036854775807"), RawNum("9223372036854775808"), RawNum("18446744073709551616"), RawNum("1.5"), RawNum("-0.5"), RawNum("123456789012345678901234567890")}

func setSlot(s docSlot, v any) {
	m := s.parent.(*OMap)
	if s.list != nil {
		(*s.list)[s.idx] = v
		for i, k := range m.K {
			if k == s.key {
				m.V[i] = *s.list
			}
		}
		return
	}
	m.V[s.idx] = v
}

func getSlot(s docSlot) any {
	if s.list != nil {
		return (*s.list)[s.idx]
	}
	return s.parent.(*OMap).V[s.idx]
}

// c17Mutate applies one structural mutation and describes it.
func c17Mutate(r *rand.Rand, d *OMap) string {
	var slots []docSlot
	collectSlots(d, "", &slots)
	if len(slots) == 0 {
		return "none"
	}
	s := slots[r.Intn(len(slots))]
	switch k := r.Intn(10); {
	case k < 2 && s.list == nil: // remove a member
		s.parent.(*OMap).Del(s.key)
		return "remove " + s.path
	case k < 6: // replace by a value of another type
		nv := cloneDoc(c17Replacements[r.Intn(len(c17Replacements))])
		setSlot(s, nv)
		return fmt.Sprintf("replace %s by %s", s.path, emitJSON(nv))
	case k < 8: // numeric boundary at a numeric leaf (or anywhere if none)
		var nums []docSlot
		for _, x := range slots {
			switch getSlot(x).(type) {
			case int, int64, uint32, uint64, RawNum:
				nums = append(nums, x)
			}
		}
		if len(nums) > 0 {
			s = nums[r.Intn(len(nums))]
		}
		nv := c17Numbers[r.Intn(len(c17Numbers))]
		setSlot(s, nv)
		return fmt.Sprintf("number %s = %s", s.path, emitJSON(nv))
	case k < 9 && chance(r, 25): // a member with a very long name, or a sentinel number spelled unusually in JSON
		if chance(r, 50) {
			d.Add(strings.Repeat("n", 1100), "long member name")
			return "extra member with a 1100-byte name"
		}
		var nums []docSlot
		for _, x := range slots {
			switch getSlot(x).(type) {
			case int, int64, uint32, uint64:
				nums = append(nums, x)
			}
		}
		if len(nums) == 0 {
			return "none"
		}
		s = nums[r.Intn(len(nums))]
		setSlot(s, 77000)
		return "number " + s.path + " = 77000 (spelled with exponent/fraction in JSON)"
	case k < 9: // extra member in some object
		var objs []*OMap
		var paths []string
		objs, paths = append(objs, d), append(paths, "")
		for _, x := range slots {
			if o, ok := getSlot(x).(*OMap); ok {
				objs, paths = append(objs, o), append(paths, x.path)
			}
		}
		i := r.Intn(len(objs))
		objs[i].Add(pickStr(r, "extra", "x-y", "zzz"), cloneDoc(c17Replacements[r.Intn(len(c17Replacements))]))
		return "extra member in " + paths[i] + "/"
	default: // ill-formed annotation key
		key := pickStr(r, "a b", "-x", "x/", "", strings.Repeat("k", 64), "é")
		if chance(r, 50) {
			if v, ok := d.Get("annotations"); ok {
				if m, ok := v.(*OMap); ok {
					m.Add(key, "v")
					return fmt.Sprintf("annotation key %q at spec level", key)
				}
			}
			d.Set("annotations", om(key, "v"))
			return fmt.Sprintf("annotation key %q at spec level", key)
		}
		if v, ok := d.Get("devices"); ok {
			if l, ok := v.([]any); ok && len(l) > 0 {
				if dev, ok := l[r.Intn(len(l))].(*OMap); ok {
					dev.Set("annotations", om("ok", "v", key, "w"))
					return fmt.Sprintf("annotation key %q in a device", key)
				}
			}
		}
		return "none"
	}
}

// c17BigAnnotations gives the Spec and its devices large annotation sets with
// keys of their own: the 256 KiB limit is per annotated object, never for the
// document, and most of the time every object stays within it.
func c17BigAnnotations(r *rand.Rand, d *OMap) string {
	sizes := [][]int{{140 << 10, 140 << 10, 140 << 10}, {200 << 10, 100 << 10, 0}, {0, 150 << 10, 150 << 10}, {262144, 262144, 262144}, {100 << 10, 262145, 0}}[r.Intn(5)]
	set := func(o *OMap, tag string, total int) {
		if total == 0 {
			return
		}
		k1, k2 := "big-"+tag, "k-"+tag
		o.Set("annotations", om(k1, strings.Repeat("x", total-len(k1)-len(k2)-1), k2, "v"))
	}
	set(d, "spec", sizes[0])
	if v, ok := d.Get("devices"); ok {
		if l, ok := v.([]any); ok {
			for i, dv := range l {
				if dev, ok := dv.(*OMap); ok && i < 2 {
					set(dev, fmt.Sprintf("dev%d", i), sizes[1+i])
				}
			}
		}
	}
	return fmt.Sprintf("annotation sets of %v bytes (spec, device 0, device 1)", sizes)
}

// annotationsWellFormed mirrors what the content checks look at.
func annotationsWellFormed(doc any) bool {
	root, ok := doc.(map[string]any)
	if !ok {
		return true
	}
	check := func(v any) bool {
		m, ok := v.(map[string]any)
		if !ok {
			return true
		}
		size := 0
		for k, val := range m {
			s, isStr := val.(string)
			if !isStr || !mSpecAnnotationKey(k) {
				return false
			}
			size += len(k) + len(s)
		}
		return size <= 262144
	}
	if a, ok := root["annotations"]; ok && !check(a) {
		return false
	}
	if devs, ok := root["devices"].([]any); ok {
		for _, d := range devs {
			if dm, ok := d.(map[string]any); ok {
				if a, ok := dm["annotations"]; ok && !check(a) {
					return false
				}
			} else if d != nil {
				return false // a device that is not an object: the content walk gives up with an error
			}
		}
	}
	return true
}

func checkC17(c *Ctx) {
	c.Rule = "JSON-representable documents: valid Specs from G-SPEC and 1-3 structural mutations of them (member removed, member replaced by every other JSON type, numbers at and around the uint32/int64 bounds and non-integers, extra members, nulls, ill-formed annotation keys), non-object roots; each in JSON and YAML (harness emitters) through ValidateData, ValidateFile(.json/.yaml), ValidateReader, ReadAndValidate, ValidateType and Validate(*Spec), with the builtin schema, Load(copy of the shipped files), Load(\"none\") and a nil *Schema; reference = harness-written draft-07 evaluator over the shipped files; distinct_nontrivial = distinct (mutation kinds+paths with indices stripped, model verdict) combinations"
	c.Assume("M-SCHEMA (model_schema.go) implements draft-07 (RE2 pattern syntax like the library)", "YAML encodings use block collections, double-quoted strings and canonical decimal numbers", "documents with ill-formed annotation keys are excluded from the 'equals the draft-07 verdict' clause (as the property states) but not from the encoding-independence and none/nil clauses")
	ss, err := loadSchemaSet(filepath.Join(c.Repo, "schema"))
	if err != nil {
		c.HarnessError("cannot load the shipped schema files: %v", err)
		return
	}
	// an external copy of the shipped files
	ext := filepath.Join(c.Scratch, "extschema")
	must(os.MkdirAll(ext, 0o755))
	for _, f := range []string{"schema.json", "defs.json"} {
		data, err := os.ReadFile(filepath.Join(c.Repo, "schema", f))
		must(err)
		must(os.WriteFile(filepath.Join(ext, f), data, 0o644))
	}
	builtin, err := schema.Load("builtin")
	if err != nil {
		c.HarnessError("Load(builtin): %v", err)
		return
	}
	external, err := schema.Load(filepath.Join(ext, "schema.json"))
	if err != nil {
		c.violation("setup", "external-load", nil, fmt.Sprintf("Load(<copy of the shipped schema files>) fails: %v", err), nil)
		return
	}
	// the same files named in other ways: with the file:// scheme, with blanks around
	// the name, with a name that is not clean, and by a name that is a symbolic link
	// (references in a schema are relative to the name it was loaded by: defs.json is
	// the one next to the link, there is none next to the link's target)
	linkTarget := filepath.Join(c.Scratch, "extschema-target")
	linkDir := filepath.Join(c.Scratch, "extschema-link")
	must(os.MkdirAll(linkTarget, 0o755))
	must(os.MkdirAll(linkDir, 0o755))
	for f, d := range map[string]string{"schema.json": linkTarget, "defs.json": linkDir} {
		data, err := os.ReadFile(filepath.Join(c.Repo, "schema", f))
		must(err)
		must(os.WriteFile(filepath.Join(d, f), data, 0o644))
	}
	must(os.Symlink(filepath.Join(linkTarget, "schema.json"), filepath.Join(linkDir, "schema.json")))
	externals := []*schema.Schema{external}
	externalNames := []string{"external"}
	for _, v := range []struct{ tag, src string }{
		{"external[file://]", "file://" + filepath.Join(ext, "schema.json")},
		{"external[blanks]", "  " + filepath.Join(ext, "schema.json") + "\n"},
		{"external[unclean]", ext + "/../extschema//./schema.json"},
		{"external[symlink]", filepath.Join(linkDir, "schema.json")},
	} {
		x, err := schema.Load(v.src)
		if err != nil {
			c.violation("setup", "external-load", map[string]string{"entry": v.tag}, fmt.Sprintf("Load(%q) (%s: the shipped schema files) fails: %v", v.src, v.tag, err), nil)
			return
		}
		externals = append(externals, x)
		externalNames = append(externalNames, v.tag)
	}
	none, err := schema.Load("none")
	if err != nil {
		c.HarnessError("Load(none): %v", err)
		return
	}
	var nilSchema *schema.Schema
	// canary: a schema that failed to compile and fell back to the no-op validator
	if builtin.ValidateData([]byte("{}")) == nil {
		c.violation("canary", "builtin-is-noop", nil, "the builtin schema accepts {} (cdiVersion, kind and devices are required): it validates nothing", nil)
	}
	if ok, _ := ss.Valid(map[string]any{}); ok {
		c.HarnessError("the model accepts {} against the shipped schema")
	}
	// the package-level default schema (before anything here runs concurrently): set to
	// nil it stays nil, whoever asks for it in between, and rejects nothing
	{
		schema.Set(nil)
		saved := schema.Get()
		schema.Set(saved)
		_ = schema.Get()
		for _, doc := range []string{"{}", `{"cdiVersion":7}`, "kind: [1]\n"} {
			if err := schema.ValidateData([]byte(doc)); err != nil {
				c.violation("default-schema", "none-rejects", map[string]string{"entry": "package-level ValidateData after Set(nil), Get()"}, fmt.Sprintf("after Set(nil) and a Get()/Set() round trip the package-level ValidateData rejects %s: %v", doc, err), nil)
				break
			}
		}
		schema.Set(builtin)
		if schema.ValidateData([]byte("{}")) == nil {
			c.violation("default-schema", "verdict", map[string]string{"entry": "package-level ValidateData after Set(builtin)"}, "after Set(BuiltinSchema()) the package-level ValidateData accepts {}", nil)
		}
		c.Count("default_schema_round_trips", 1)
	}
	files := filepath.Join(c.Scratch, "docs")
	must(os.MkdirAll(files, 0o755))
	// thorough tier: (document, model verdict) records for the python cross-reference
	var xmu sync.Mutex
	var xrecs []string
	c.RunCases("gen", c.pick(3000, 80000), 0, func(cs *Case) {
		r := cs.R
		var spec *specs.Spec
		var doc any
		var muts []string
		switch k := r.Intn(20); {
		case k == 0:
			doc = []any{[]any{1, 2}, "abc", 5, nil, true, []any{}, &OMap{}}[r.Intn(7)]
			muts = append(muts, "non-object root")
		default:
			spec = genSpec(r, SpecGen{Marker: "m"})
			if chance(r, 20) {
				spec = c05Base(r)
			}
			if chance(r, 15) {
				c09Numeric(r, spec)
			}
			if k == 1 || k == 2 {
				// in-memory shapes that only a Go value has: empty or nil device list,
				// empty non-nil lists, empty annotation maps, zero-valued members
				switch r.Intn(6) {
				case 0:
					spec.Devices = []specs.Device{}
					muts = append(muts, "struct: devices = empty list")
				case 1:
					spec.Devices = nil
					muts = append(muts, "struct: devices = nil")
				case 2:
					spec.Devices[0].ContainerEdits = specs.ContainerEdits{Env: []string{}, Mounts: []*specs.Mount{}}
					muts = append(muts, "struct: device edits with empty non-nil lists")
				case 3:
					spec.Annotations = map[string]string{}
					spec.Devices[0].Annotations = map[string]string{}
					muts = append(muts, "struct: empty annotation maps")
				case 4:
					spec.Devices[0].Name = ""
					spec.Kind = ""
					muts = append(muts, "struct: empty name and kind")
				default:
					spec.ContainerEdits = specs.ContainerEdits{IntelRdt: &specs.IntelRdt{}, AdditionalGIDs: []uint32{}}
					muts = append(muts, "struct: empty intelRdt object")
				}
			}
			var ci int
			fmt.Sscanf(cs.Name, "gen:%d", &ci)
			large := ci < 6 && k >= 1
			if large {
				// documents of more than a MiB, every other one with its only defect in the last
				// device (size is no excuse, whatever the entry point)
				filler := strings.Repeat("x", 2000)
				for n := 0; n < 640+ci*40; n++ {
					spec.Devices = append(spec.Devices, specs.Device{Name: fmt.Sprintf("fill%d", n), ContainerEdits: specs.ContainerEdits{Env: []string{"F=" + filler}}})
				}
				muts = append(muts, fmt.Sprintf("large document: %d devices", len(spec.Devices)))
				c.Count("documents_of_more_than_a_mib", 1)
			}
			d := specDoc(spec)
			if large && ci%2 == 1 {
				if devs, ok := d.Get("devices"); ok {
					if list, ok := devs.([]any); ok && len(list) > 0 {
						if last, ok := list[len(list)-1].(*OMap); ok {
							last.Set("name", 7)
							muts = append(muts, "last device: name = 7")
							spec = nil
						}
					}
				}
			}
			if large {
				k = 3 // (no further mutation)
			}
			if chance(r, 4) {
				muts = append(muts, c17BigAnnotations(r, d))
				spec = nil
				c.Count("documents_with_large_annotation_sets", 1)
			}
			if k >= 4 { // most documents are mutated
				n := 1 + r.Intn(3)
				for i := 0; i < n; i++ {
					muts = append(muts, c17Mutate(r, d))
				}
				spec = nil
			}
			doc = d
		}
		jb := []byte(emitJSON(doc))
		yb := []byte(emitYAML(doc))
		// legal but unusual JSON spellings of the same document
		if chance(r, 35) {
			js := string(jb)
			if chance(r, 50) && strings.Contains(js, "/") {
				js = strings.ReplaceAll(js, "/", "\\/") // '/' only occurs inside strings
				muts = append(muts, "json spelling: \\/ escapes")
			}
			if chance(r, 50) && strings.Contains(js, "\\u007f") {
				js = strings.ReplaceAll(js, "\\u007f", "\x7f")
				muts = append(muts, "json spelling: raw DEL")
			}
			if strings.Contains(js, ":77000") {
				js = strings.ReplaceAll(js, ":77000", ":"+pickStr(r, "7.7e4", "77000.0", "77e3", "7.7E+4", "770000e-1"))
				muts = append(muts, "json spelling: exponent/fraction")
			}
			if chance(r, 30) {
				js = " \n\t" + strings.ReplaceAll(js, ",\"", ",\n  \"") + "\n"
				muts = append(muts, "json spelling: whitespace")
			}
			jb = []byte(js)
		}
		inst, derr := decodeJSONNumber(jb)
		if derr != nil {
			c.HarnessError("harness emitted invalid JSON: %v: %s", derr, jb)
			return
		}
		model, merr := ss.Valid(inst)
		if merr != nil {
			cs.Violation("schema-files-broken", nil, fmt.Sprintf("the shipped schema files cannot be evaluated: %v", merr), nil)
			return
		}
		wellFormed := annotationsWellFormed(inst)
		if !c.Quick() && len(jb) < 20000 {
			xmu.Lock()
			if len(xrecs) < 6000 {
				// python's json module reads every number spelling we emit; integers are exact there too
				xrecs = append(xrecs, jsonStr(map[string]any{"doc": string(jb), "valid": model}))
			}
			xmu.Unlock()
		}
		sigParts := make([]string, len(muts))
		for i, m := range muts {
			sigParts[i] = stripDigits(m)
		}
		sort.Strings(sigParts)
		c.Distinct(fmt.Sprintf("%v|%v|%s", model, wellFormed, strings.Join(sigParts, ";")))
		if model {
			c.Count("model_accepts", 1)
		} else {
			c.Count("model_rejects", 1)
		}
		if !wellFormed {
			c.Count("documents_with_ill_formed_annotations", 1)
		}
		jf := filepath.Join(files, sanitize(cs.Name)+".json")
		yf := filepath.Join(files, sanitize(cs.Name)+".yaml")
		must(os.WriteFile(jf, jb, 0o644))
		must(os.WriteFile(yf, yb, 0o644))
		defer os.Remove(jf)
		defer os.Remove(yf)
		yInJ := filepath.Join(files, sanitize(cs.Name)+"-y."+pickStr(r, "json", "JSON"))
		jInY := filepath.Join(files, sanitize(cs.Name)+"-j.yaml")
		must(os.WriteFile(yInJ, yb, 0o644))
		must(os.WriteFile(jInY, jb, 0o644))
		defer os.Remove(yInJ)
		defer os.Remove(jInY)
		goVal := docToGo(doc)
		type res struct {
			name string
			err  error
		}
		run := func(name string, f func() error) res {
			var e error
			if pv, st := guard(func() { e = f() }); pv != nil {
				cs.Violation("panic", map[string]string{"entry": name}, fmt.Sprintf("%s panics: %v", name, pv), map[string]any{"json": string(jb), "stack": st})
				return res{name, fmt.Errorf("panic")}
			}
			return res{name, e}
		}
		// "a reader of JSON": readers differ in how they deliver the same bytes (all at
		// once, one byte per call, the last bytes together with io.EOF, ...)
		rk := r.Intn(5)
		mkReader := func() io.Reader {
			switch rk {
			case 1:
				return iotest.DataErrReader(bytes.NewReader(jb))
			case 2:
				return iotest.OneByteReader(bytes.NewReader(jb))
			case 3:
				return iotest.HalfReader(bytes.NewReader(jb))
			case 4:
				return iotest.DataErrReader(iotest.OneByteReader(strings.NewReader(string(jb))))
			}
			return bytes.NewReader(jb)
		}
		c.Count(fmt.Sprintf("reader_kind:%d", rk), 1)
		entries := func(s *schema.Schema, tag string, full bool) []res {
			out := []res{
				run(tag+".ValidateData(json)", func() error { return s.ValidateData(jb) }),
				run(tag+".ValidateData(yaml)", func() error { return s.ValidateData(yb) }),
				run(tag+".ValidateFile(.json)", func() error { return s.ValidateFile(jf) }),
				run(tag+".ValidateFile(.yaml)", func() error { return s.ValidateFile(yf) }),
				run(tag+".ValidateReader(json)", func() error { return s.ValidateReader(mkReader()) }),
			}
			// (the extension is a name: what a file holds decides how it is read)
			out = append(out,
				run(tag+".ValidateFile(.json holding the yaml encoding)", func() error { return s.ValidateFile(yInJ) }),
				run(tag+".ValidateFile(.yaml holding the json encoding)", func() error { return s.ValidateFile(jInY) }))
			if full {
				out = append(out,
					run(tag+".ReadAndValidate(json)", func() error {
						data, e := s.ReadAndValidate(mkReader())
						if e == nil && !bytes.Equal(data, jb) {
							return fmt.Errorf("ReadAndValidate returned different data")
						}
						return e
					}),
					run(tag+".ValidateType(tree)", func() error { return s.ValidateType(goVal) }))
			}
			if spec != nil {
				out = append(out, run(tag+".Validate(*Spec)", func() error { return s.Validate(spec) }))
			}
			return out
		}
		wit := func(results []res) map[string]any {
			m := map[string]any{"mutations": muts, "json": clip(string(jb), 4000), "yaml": clip(string(yb), 4000), "model_verdict_valid": model, "annotations_well_formed": wellFormed}
			rs := map[string]string{}
			for _, x := range results {
				if x.err == nil {
					rs[x.name] = "accepts"
				} else {
					rs[x.name] = "rejects: " + clip(x.err.Error(), 300)
				}
			}
			m["results"] = rs
			return m
		}
		if chance(r, 25) {
			// a read that fails half way (the reader delivers some bytes, then an error that is
			// not the end of the data) on the same schema objects, just before: what the next
			// call decides is about the next call's document only
			left := pickStr(r, `{"cdiVersion":"0.6.0","kind":"vendor.com/gpu","devices":[{"name":"d","containerEdits":{"env":["A=b"]}}]}`, `{"cdiVersion":"0.6.0","kind":"vendor.com/gpu","devices":[{"name":"d","contain`, `{}`, "\x00\x00\x00")
			for _, sch := range []*schema.Schema{builtin, externals[0], none} {
				if err := sch.ValidateReader(io.MultiReader(strings.NewReader(left), iotest.ErrReader(errors.New("injected read failure")))); err == nil {
					cs.Violation("verdict", map[string]string{"entry": "ValidateReader(failing reader)"}, "ValidateReader reports success for a reader that failed with an error before the end of the data", map[string]any{"delivered_before_the_failure": left})
					return
				}
			}
			c.Count("reader_calls_after_a_failed_read", 1)
			muts = append(muts, "after a failed read on the same schema objects")
		}
		rb := entries(builtin, "builtin", true)
		xi := r.Intn(len(externals))
		c.Count("evaluations:"+externalNames[xi], 1)
		re := entries(externals[xi], externalNames[xi], false)
		all := append(append([]res{}, rb...), re...)
		c.Count("entry_point_evaluations", len(all))
		// (1) equals the draft-07 verdict
		if wellFormed {
			for _, x := range all {
				if (x.err == nil) != model {
					cls := "verdict"
					if strings.HasPrefix(x.name, "external") {
						cls = "external-differs"
					}
					cs.Violation(cls, map[string]string{"entry": x.name}, fmt.Sprintf("%s %s, draft-07 semantics of the shipped schema say valid=%v (mutations: %v)", x.name, verdictWord(x.err), model, muts), wit(all))
					return
				}
			}
		}
		// (2) same verdict for the JSON and the YAML encoding, per entry point
		for i := 0; i+1 < 4; i += 2 {
			for _, set := range [][]res{rb, re} {
				if (set[i].err == nil) != (set[i+1].err == nil) {
					cs.Violation("encoding-dependent", map[string]string{"entry": set[i].name}, fmt.Sprintf("%s %s but %s %s (mutations: %v)", set[i].name, verdictWord(set[i].err), set[i+1].name, verdictWord(set[i+1].err), muts), wit(all))
					return
				}
			}
		}
		// (3) none and nil never reject a parseable document
		yamlReaders := func(sch *schema.Schema, tag string) []res {
			// (a reader that delivers the YAML encoding: nothing to validate against, nothing to reject)
			return []res{
				run(tag+".ValidateReader(yaml)", func() error { return sch.ValidateReader(bytes.NewReader(yb)) }),
				run(tag+".ReadAndValidate(yaml)", func() error {
					data, e := sch.ReadAndValidate(iotest.OneByteReader(bytes.NewReader(yb)))
					if e == nil && !bytes.Equal(data, yb) {
						return fmt.Errorf("ReadAndValidate returned different data")
					}
					return e
				}),
			}
		}
		for _, x := range append(append(append(entries(none, "none", true), entries(nilSchema, "nil", false)...), yamlReaders(none, "none")...), yamlReaders(nilSchema, "nil")...) {
			if x.err != nil {
				cs.Violation("none-rejects", map[string]string{"entry": x.name}, fmt.Sprintf("%s rejects a parseable document: %v", x.name, x.err), wit([]res{x}))
				return
			}
		}
		c.Sample(4, map[string]any{"mutations": muts, "model_verdict_valid": model, "annotations_well_formed": wellFormed, "json": clip(string(jb), 600)})
	})
	// the builtin schema's first uses, concurrent, in fresh processes
	if c.replayCase == "" || strings.HasPrefix(c.replayCase, "first-use") {
		exe, _ := os.Executable()
		c.RunCases("first-use", c.pick(8, 60), 4, func(cs *Case) {
			out, err := exec.Command(exe, "child-c17first").CombinedOutput()
			var wrong, n int
			if i := strings.LastIndex(string(out), "WRONG "); i >= 0 {
				fmt.Sscanf(string(out)[i:], "WRONG %d OF %d", &wrong, &n)
			}
			if err != nil || n == 0 {
				cs.Violation("first-use-crash", nil, fmt.Sprintf("a process whose first uses of the builtin schema are concurrent died: %v: %s", err, clip(string(out), 2000)), nil)
				return
			}
			c.Count("concurrent_first_use_validations", n)
			if wrong > 0 {
				cs.Violation("first-use-verdict", nil, fmt.Sprintf("%d of %d concurrent first validations with the builtin schema gave a verdict that differs from the shipped schema's (a schema that is still compiling must not validate as 'none')", wrong, n), map[string]any{"output": string(out)})
			}
		})
	}
	// second reference for the model itself (thorough tier)
	if len(xrecs) > 0 && c.replayCase == "" {
		rf := filepath.Join(c.Scratch, "xref.jsonl")
		must(os.WriteFile(rf, []byte(strings.Join(xrecs, "\n")+"\n"), 0o644))
		if py, err := exec.LookPath("python3-vt"); err != nil {
			c.Extra("python_cross_reference", "skipped: python3-vt not found")
		} else {
			out, err := exec.Command(py, filepath.Join(c.Verif, "tools", "xref_schema.py"), filepath.Join(c.Repo, "schema"), rf).CombinedOutput()
			text := string(out)
			c.Extra("python_cross_reference", clip(strings.TrimSpace(text), 1500))
			var n, bad int
			if i := strings.LastIndex(text, "CHECKED "); i >= 0 {
				fmt.Sscanf(text[i:], "CHECKED %d DISAGREE %d", &n, &bad)
			}
			c.Count("python_cross_reference_documents", n)
			if err != nil || n == 0 {
				c.Extra("python_cross_reference_error", fmt.Sprint(err))
			} else if bad > 0 {
				// the two references disagree: the harness's model cannot be trusted
				c.HarnessError("M-SCHEMA and python jsonschema disagree on %d of %d documents: %s", bad, n, clip(text, 800))
			}
		}
	}
	// keyword-instance coverage of the shipped files
	both, total := 0, 0
	var oneSided []string
	for k, v := range ss.Cover {
		total++
		if v[0] > 0 && v[1] > 0 {
			both++
		} else {
			oneSided = append(oneSided, fmt.Sprintf("%s sat=%d viol=%d", k, v[0], v[1]))
		}
	}
	sort.Strings(oneSided)
	c.Extra("schema_keyword_instances", total)
	c.Extra("schema_keyword_instances_satisfied_and_violated", both)
	c.Extra("schema_keyword_instances_one_sided", oneSided)
	c.Count("schema_keyword_instances_both_ways", both)
	if c.replayCase == "" && total > 0 && both*100 < total*80 {
		c.HarnessError("only %d of %d schema keyword instances were both satisfied and violated", both, total)
	}
	c.Floor("model_accepts", 100)
	c.Floor("model_rejects", 100)
	c.Floor("documents_with_ill_formed_annotations", 20)
}

func verdictWord(err error) string {
	if err == nil {
		return "accepts"
	}
	return "rejects (" + clip(err.Error(), 160) + ")"
}

func clip(s string, n int) string {
	if len(s) > n {
		return s[:n] + "..."
	}
	return s
}

func stripDigits(s string) string {
	b := []byte(s)
	out := b[:0]
	for _, ch := range b {
		if ch < '0' || ch > '9' {
			out = append(out, ch)
		}
	}
	return string(out)
}

var _ = json.Marshal
