package main

// C16 — generated Spec file names are confined; write and remove are symmetric.
// Trace monitor over directory-tree snapshots before/after WriteSpec/RemoveSpec.

import (
	"bytes"
	"crypto/sha256"
	"encoding/json"
	"fmt"
	"golang.org/x/sys/unix"
	"io/fs"
	"os"
	"os/exec"
	"path/filepath"
	"sort"
	"strings"

	"sigs.k8s.io/yaml"
	"tags.cncf.io/container-device-interface/pkg/cdi"
	specs "tags.cncf.io/container-device-interface/specs-go"
)

func init() {
	register("C16", checkC16)
	registerChild("c16cwd", childC16Cwd)
}

// childC16Cwd: in a process of its own (the working directory is process wide), the
// last configured directory is the working directory itself, spelled in several ways.
func childC16Cwd(args []string) int {
	must(os.Chdir(args[0]))
	must(os.MkdirAll("etc", 0o755))
	out := map[string]string{}
	for _, last := range []string{".", "./", "./etc/..", "etc/../."} {
		name := "cwd-test-" + sanitize(last) + ".yaml"
		cache, _ := cdi.NewCache(cdi.WithSpecDirs("etc", last), cdi.WithAutoRefresh(false))
		spec := &specs.Spec{Version: "0.6.0", Kind: "cwd.org/dev", Devices: []specs.Device{{Name: "d", ContainerEdits: specs.ContainerEdits{Env: []string{"A=1"}}}}}
		res := ""
		if err := cache.WriteSpec(spec, name); err != nil {
			res = "WriteSpec: " + err.Error()
		} else if _, err := os.Stat(filepath.Join(args[0], name)); err != nil {
			res = "no file in the working directory after WriteSpec: " + err.Error()
		} else if cache.Refresh(); cache.GetDevice("cwd.org/dev=d") == nil {
			res = "the device does not resolve after WriteSpec and Refresh"
		} else if err := cache.RemoveSpec(name); err != nil {
			res = "RemoveSpec: " + err.Error()
		} else if _, err := os.Stat(filepath.Join(args[0], name)); err == nil {
			res = "the file is still there after RemoveSpec"
		}
		out[last] = res
	}
	fmt.Println(jsonStr(out))
	return 0
}

// treeSnapshot maps every path below root to "type mode size sha256".
func treeSnapshot(root string) map[string]string {
	out := map[string]string{}
	filepath.WalkDir(root, func(path string, d fs.DirEntry, err error) error {
		if err != nil {
			out[path] = "error " + err.Error()
			return nil
		}
		info, err := d.Info()
		if err != nil {
			out[path] = "error " + err.Error()
			return nil
		}
		switch {
		case d.IsDir():
			out[path] = fmt.Sprintf("dir %o", info.Mode().Perm())
		case info.Mode().IsRegular():
			data, _ := os.ReadFile(path)
			out[path] = fmt.Sprintf("file %o %d %x", info.Mode().Perm(), len(data), sha256.Sum256(data))
		default:
			out[path] = "other " + info.Mode().String()
		}
		return nil
	})
	return out
}

// snapDiff returns added, removed, changed paths.
func snapDiff(a, b map[string]string) (added, removed, changed []string) {
	for p := range b {
		if _, ok := a[p]; !ok {
			added = append(added, p)
		} else if a[p] != b[p] {
			changed = append(changed, p)
		}
	}
	for p := range a {
		if _, ok := b[p]; !ok {
			removed = append(removed, p)
		}
	}
	sort.Strings(added)
	sort.Strings(removed)
	sort.Strings(changed)
	return
}

var c16IDs = []string{"id", "pod.YAML", "x.JSON", "a/b.Yaml", "y.jSON", "../../etc/passwd", "..", ".", "a/b", "/abs/path", "a/../../b", ".hidden", "x.json", "x.yaml", "x.txt", "with space", "trailing/", "//", "a//b", "..json", "é/ü", "a\nb", "tab\there", "..../....", strings.Repeat("long/", 30), "-dash", "~", "$HOME/`x`", "*?[", "\\back\\slash", "con:1"}

func checkC16(c *Ctx) {
	c.Rule = "valid Specs (vendors/classes with dots, classes ending in .json/.yaml) x transient ids (with '/', '..', '.', leading dots, extensions, blanks, line breaks; catalogue + G-STR) x all four name generators x suffix {none,.json,.yaml} x directory lists of 1-3 entries whose last one is populated, empty, missing or missing two levels deep, with decoy files in parents, siblings and the lower-priority directories defining the same devices (also conflicting there); manual and auto-refresh caches; oracles: name is one path component; tree-snapshot diff after WriteSpec = exactly the expected file (+ directories that had to be created); encoding by extension; after Refresh the devices resolve to that file with the last directory's priority; RemoveSpec diff = exactly that file; second RemoveSpec = nil; distinct_nontrivial = distinct (generator, id shape, suffix, directory-list shape, mode)"
	c.Assume("transient ids contain no NUL byte; generated file names are at most 255 bytes (NAME_MAX)", "the last configured directory holds no other file defining the same devices (a same-directory conflict is not 'another directory')")
	// the package defaults point at scratch directories: a write that follows them
	// instead of the configuration shows up there (and never touches the real ones)
	trap := filepath.Join(c.Scratch, "package-defaults")
	must(os.MkdirAll(filepath.Join(trap, "etc"), 0o755))
	cdi.DefaultSpecDirs = []string{filepath.Join(trap, "etc"), filepath.Join(trap, "run")}
	// the last directory is the working directory (a child process each)
	exe, _ := os.Executable()
	c.RunCases("cwd", c.pick(2, 8), 2, func(cs *Case) {
		root := filepath.Join(c.Scratch, sanitize(cs.Name))
		must(os.MkdirAll(root, 0o755))
		defer os.RemoveAll(root)
		outb, err := exec.Command(exe, "child-c16cwd", root).Output()
		res := map[string]string{}
		if err != nil || json.Unmarshal(bytes.TrimSpace(outb), &res) != nil || len(res) == 0 {
			c.Inconclusive("cwd-child")
			return
		}
		for last, problem := range res {
			c.Count("writes_into_the_working_directory", 1)
			if problem != "" {
				cs.Violation("write-wrong-place", map[string]string{"last_dir": last}, fmt.Sprintf("last configured directory %q (the working directory): %s", last, problem), nil)
				return
			}
		}
	})
	c.RunCases("gen", c.pick(800, 30000), 0, func(cs *Case) { c16Case(cs, false) })
	c.RunCases("auto", c.pick(80, 1500), 4, func(cs *Case) { c16Case(cs, true) })
	c.Floor("id_with_slash", 8)
	c.Floor("id_with_dotdot", 8)
	c.Floor("id_with_extension", 8)
	c.Floor("name_with_extension_in_other_case", 5)
	c.Floor("last_dir_missing", 8)
	c.Floor("caches_reconfigured_before_the_write", 20)
	c.Floor("names_of_236_to_255_bytes", 8)
	c.Floor("last_dir_also_listed_earlier", 8)
	c.Floor("auto_mode_last_dir_missing", 5)
}

func c16Case(cs *Case, auto bool) {
	c, r := cs.Ctx, cs.R
	root := filepath.Join(c.Scratch, sanitize(cs.Name))
	sandbox := filepath.Join(root, "sandbox")
	must(os.MkdirAll(sandbox, 0o755))
	defer os.RemoveAll(root)
	vendor := pickStr(r, "vendor.com", "v", "a.b.c", "x-y_z.io")
	class := pickStr(r, "gpu", "dev.json", "x.yaml", "a.b", "c", "net-1.yaml.x", "gpu.JSON", "dev.Yaml", "x.YAML", "j.Json")
	spec := genSpec(r, SpecGen{Vendor: vendor, Class: class, Marker: "new", Plain: true, DevNames: []string{"dev0", "dev1"}, Version: "1.0.0"})
	// directories
	ndirs := 1 + r.Intn(3)
	var dirs []string
	for i := 0; i < ndirs-1; i++ {
		d := filepath.Join(sandbox, fmt.Sprintf("lower%d", i))
		must(os.MkdirAll(d, 0o755))
		dirs = append(dirs, d)
		// lower-priority definitions of the same devices, sometimes conflicting
		for k := 0; k < r.Intn(3); k++ {
			o := genSpec(r, SpecGen{Vendor: vendor, Class: class, Marker: fmt.Sprintf("low%d%d", i, k), Plain: true, DevNames: []string{"dev0", "dev1"}, Version: "1.0.0"})
			must(os.WriteFile(filepath.Join(d, fmt.Sprintf("low%d.json", k)), specBytes(o, "json"), 0o644))
		}
	}
	lastShape := pickStr(r, "populated", "empty", "missing", "missing-nested")
	last := filepath.Join(sandbox, "last")
	switch lastShape {
	case "populated":
		must(os.MkdirAll(last, 0o755))
		o := genSpec(r, SpecGen{Vendor: "other.org", Class: "thing", Marker: "other", Plain: true})
		must(os.WriteFile(filepath.Join(last, "other.yaml"), specBytes(o, "yaml"), 0o644))
		must(os.WriteFile(filepath.Join(last, "notes.txt"), []byte("decoy"), 0o644))
		if chance(r, 50) {
			// entries that are neither files nor directories, sorting before and after
			// anything we write: they are ignored, nothing else is because of them
			unix.Mkfifo(filepath.Join(last, "0-fifo"), 0o600)
			unix.Mkfifo(filepath.Join(last, "zz-fifo"), 0o600)
			unix.Mknod(filepath.Join(last, "00-null"), unix.S_IFCHR|0o600, int(unix.Mkdev(1, 3)))
			c.Count("last_dir_with_special_files", 1)
		}
	case "empty":
		must(os.MkdirAll(last, 0o755))
	case "missing-nested":
		last = filepath.Join(sandbox, "new", "nested", "last")
	}
	if chance(r, 20) {
		// the last directory is also listed earlier (under this or another spelling):
		// it is still the last-listed, highest-priority one
		early := pickStr(r, last, last+"/.", filepath.Join(sandbox, "sibling")+"/../"+filepath.Base(last), last+"//")
		if lastShape == "missing-nested" {
			early = pickStr(r, last, last+"/.")
		}
		k := r.Intn(len(dirs) + 1)
		dirs = append(dirs[:k:k], append([]string{early}, dirs[k:]...)...)
		c.Count("last_dir_also_listed_earlier", 1)
	}
	dirs = append(dirs, last)
	// decoys in parents and siblings
	must(os.WriteFile(filepath.Join(sandbox, "decoy.json"), []byte("{}"), 0o644))
	must(os.WriteFile(filepath.Join(root, "passwd"), []byte("root:x"), 0o600))
	must(os.MkdirAll(filepath.Join(sandbox, "sibling"), 0o755))
	must(os.WriteFile(filepath.Join(sandbox, "sibling", "s.yaml"), []byte("a: b\n"), 0o644))
	// the name
	id := c16IDs[r.Intn(len(c16IDs))]
	if chance(r, 30) {
		_, id = gstr(r)
		id = strings.ReplaceAll(id, "\x00", "")
		if len(id) > 200 {
			id = id[:200]
		}
	}
	genKind := r.Intn(4)
	if chance(r, 8) {
		// file names up to the file system's limit of 255 bytes are names like any other
		genKind = 1 + 2*r.Intn(2)
		target := []int{236, 245, 250, 255}[r.Intn(4)]
		id = strings.Repeat("n", target-5-len(vendor)-len(class)-2)
		c.Count("names_of_236_to_255_bytes", 1)
	}
	var name, gen string
	var gerr error
	pv, st := guard(func() {
		switch genKind {
		case 0:
			gen, name = "GenerateSpecName", cdi.GenerateSpecName(vendor, class)
		case 1:
			gen, name = "GenerateTransientSpecName", cdi.GenerateTransientSpecName(vendor, class, id)
		case 2:
			gen = "GenerateNameForSpec"
			name, gerr = cdi.GenerateNameForSpec(spec)
		default:
			gen = "GenerateNameForTransientSpec"
			name, gerr = cdi.GenerateNameForTransientSpec(spec, id)
		}
	})
	wit := map[string]any{"vendor": vendor, "class": class, "transient_id": id, "id_bytes": []byte(id), "generator": gen, "name": name, "dirs": dirs, "last_dir": lastShape, "auto": auto}
	if pv != nil {
		cs.Violation("panic", nil, fmt.Sprintf("%s panics: %v", gen, pv), map[string]any{"w": wit, "stack": st})
		return
	}
	if gerr != nil {
		cs.Violation("name-error", nil, fmt.Sprintf("%s fails for a valid Spec: %v", gen, gerr), wit)
		return
	}
	transient := strings.Contains(gen, "Transient")
	if transient {
		if strings.Contains(id, "/") {
			c.Count("id_with_slash", 1)
		}
		if strings.Contains(id, "..") {
			c.Count("id_with_dotdot", 1)
		}
		if strings.HasSuffix(id, ".json") || strings.HasSuffix(id, ".yaml") {
			c.Count("id_with_extension", 1)
		}
	}
	if name == "" || name == "." || name == ".." || strings.Contains(name, "/") || filepath.Base(name) != name {
		cs.Violation("name-not-a-component", nil, fmt.Sprintf("%s(%q,%q,%q) = %q is not a single path component", gen, vendor, class, id, name), wit)
		return
	}
	suffix := pickStr(r, "", ".json", ".yaml")
	if strings.HasSuffix(strings.ToLower(name), ".json") || strings.HasSuffix(strings.ToLower(name), ".yaml") {
		if !strings.HasSuffix(name, ".json") && !strings.HasSuffix(name, ".yaml") {
			suffix = "" // an extension in another letter case is not a Spec extension: .yaml must be appended
			c.Count("name_with_extension_in_other_case", 1)
		}
	}
	wname := name + suffix
	expected := filepath.Join(last, wname)
	enc := "yaml"
	switch {
	case strings.HasSuffix(wname, ".json"):
		enc = "json"
	case strings.HasSuffix(wname, ".yaml"):
	default:
		expected += ".yaml"
	}
	wit["written_as"], wit["expected_path"] = wname, expected
	idShape := "none"
	if transient {
		idShape = fmt.Sprintf("s%vd%ve%v", strings.Contains(id, "/"), strings.Contains(id, ".."), strings.Contains(id, "."))
	}
	c.Distinct(fmt.Sprintf("%s|%s|%s|%d%s|%v", gen, idShape, suffix, len(dirs), lastShape, auto))
	if strings.HasPrefix(lastShape, "missing") {
		c.Count("last_dir_missing", 1)
		if auto {
			c.Count("auto_mode_last_dir_missing", 1)
		}
	}
	// what a cache of its own writes for this Spec under this name, elsewhere: the
	// reference for the content of the file
	refDir := filepath.Join(root, "ref-writer")
	var refBytes []byte
	if rc, _ := cdi.NewCache(cdi.WithSpecDirs(refDir), cdi.WithAutoRefresh(false)); rc != nil && rc.WriteSpec(cloneSpec(spec), wname) == nil {
		refBytes, _ = os.ReadFile(filepath.Join(refDir, filepath.Base(expected)))
	}
	os.RemoveAll(refDir)
	// sometimes the target exists already (replace)
	dirInTheWay, dirNotEmpty := false, false
	if chance(r, 8) && !strings.HasPrefix(lastShape, "missing") {
		// a directory sits under the very name (empty, or with something in it): the write
		// cannot succeed, and a write that fails leaves nothing behind either
		must(os.Mkdir(expected, 0o755))
		if chance(r, 60) {
			must(os.WriteFile(filepath.Join(expected, "inside.txt"), []byte("x"), 0o644))
			dirNotEmpty = true
		}
		dirInTheWay = true
		c.Count("writes_with_a_directory_under_the_name", 1)
	} else if chance(r, 30) && !strings.HasPrefix(lastShape, "missing") {
		switch r.Intn(4) {
		case 3: // a symbolic link under that very name, to a file elsewhere: the link is replaced, its target is not written through
			must(os.WriteFile(filepath.Join(sandbox, "linked-elsewhere.yaml"), []byte("precious: content\n"), 0o644))
			must(os.Symlink(filepath.Join(sandbox, "linked-elsewhere.yaml"), expected))
			c.Count("replaces_a_symbolic_link", 1)
		case 0:
			must(os.WriteFile(expected, []byte("old content"), 0o644))
		case 1: // the new content already, followed by leftovers of a longer, older version
			must(os.WriteFile(expected, append(append([]byte{}, refBytes...), []byte("\n  - name: ghost\n    containerEdits:\n      env:\n        - GHOST=1\n")...), 0o644))
			c.Count("replaces_a_longer_file_that_begins_with_the_new_content", 1)
		default: // a shorter prefix of the new content
			must(os.WriteFile(expected, refBytes[:len(refBytes)/2], 0o644))
		}
		c.Count("replaces_existing_file", 1)
	}
	if chance(r, 20) && !strings.HasPrefix(lastShape, "missing") {
		// another Spec's file whose name differs from the one written only in its
		// extension (.json / .yaml): somebody else's file
		sib := strings.TrimSuffix(expected, filepath.Ext(expected)) + map[string]string{".yaml": ".json", ".json": ".yaml"}[filepath.Ext(expected)]
		if _, err := os.Lstat(sib); err != nil {
			must(os.WriteFile(sib, []byte(`{"cdiVersion":"0.6.0","kind":"sibling.org/dev","devices":[{"name":"s","containerEdits":{"env":["S=1"]}}]}`), 0o644))
			c.Count("writes_next_to_a_sibling_in_the_other_encoding", 1)
		}
	}
	var cache *cdi.Cache
	var ac *autoCache
	if auto {
		// an always-present lowest-priority anchor directory for logical quiescence
		anchor := filepath.Join(sandbox, "anchor")
		must(os.MkdirAll(anchor, 0o755))
		dirs = append([]string{anchor}, dirs...)
		wit["dirs"] = dirs
		first := dirs
		reconfigured := chance(r, 25)
		if reconfigured {
			// the cache starts out on other directories: what counts is the last
			// directory of the configuration in force
			elsewhere := filepath.Join(sandbox, "configured-first")
			must(os.MkdirAll(elsewhere, 0o755))
			first = []string{anchor, elsewhere}
		}
		a, err := newAutoCache(sandbox, anchor, first)
		if err != nil {
			c.Inconclusive("no-inotify")
			return
		}
		defer a.Close()
		cache, ac = a.C, a
		if reconfigured {
			o, reuse := withDirs(dirs)
			cache.Configure(o)
			reuse()
			c.Count("caches_reconfigured_before_the_write", 1)
		}
		// let the watcher register what it can, then query once (as a user would)
		cache.ListDevices()
	} else if chance(r, 25) {
		elsewhere := filepath.Join(sandbox, "configured-first")
		must(os.MkdirAll(elsewhere, 0o755))
		cache, _ = cdi.NewCache(cdi.WithSpecDirs(elsewhere), cdi.WithAutoRefresh(false))
		o, reuse := withDirs(dirs)
		cache.Configure(o)
		reuse()
		c.Count("caches_reconfigured_before_the_write", 1)
	} else {
		cache, _ = cdi.NewCache(cdi.WithSpecDirs(dirs...), cdi.WithAutoRefresh(false))
	}
	if chance(r, 20) {
		// a reconfiguration that does not mention the directories leaves them alone
		cache.Configure(cdi.WithAutoRefresh(auto))
		c.Count("reconfigurations_that_do_not_mention_directories", 1)
	}
	if ents, _ := os.ReadDir(filepath.Join(c.Scratch, "package-defaults", "run")); len(ents) > 0 {
		cs.Violation("write-touches-other", nil, fmt.Sprintf("something was written to the package default directory although every cache here has directories of its own: %v", ents[0].Name()), wit)
		return
	}
	before := treeSnapshot(root)
	// removing a name that does not exist succeeds, also while the last directory is missing
	if _, err := os.Lstat(expected); err != nil && (strings.HasPrefix(lastShape, "missing") || chance(r, 20)) {
		var rerr error
		if pv, st := guard(func() { rerr = cache.RemoveSpec(wname) }); pv != nil {
			cs.Violation("panic", nil, fmt.Sprintf("RemoveSpec panics: %v", pv), map[string]any{"w": wit, "stack": st})
			return
		}
		c.Count("remove_before_write", 1)
		if rerr != nil {
			cs.Violation("remove-missing-fails", map[string]string{"last_dir": lastShape}, fmt.Sprintf("RemoveSpec(%q) of a name that was never written fails (last directory: %s): %v", wname, lastShape, rerr), wit)
			return
		}
		if a, rm, ch := snapDiff(before, treeSnapshot(root)); len(a)+len(rm)+len(ch) > 0 {
			cs.Violation("remove-touches-other", nil, fmt.Sprintf("RemoveSpec(%q) of a name that was never written changed the tree: added %v removed %v changed %v", wname, a, rm, ch), wit)
			return
		}
	}
	var werr error
	if pv, st := guard(func() { werr = cache.WriteSpec(cloneSpec(spec), wname) }); pv != nil {
		cs.Violation("panic", nil, fmt.Sprintf("WriteSpec panics: %v", pv), map[string]any{"w": wit, "stack": st})
		return
	}
	if werr != nil && dirInTheWay {
		c.Count("failed_writes_checked_for_leftovers", 1)
		if a, rm, ch := snapDiff(before, treeSnapshot(root)); len(a)+len(rm)+len(ch) > 0 {
			cs.Violation("write-touches-other", map[string]string{"failed_write": "true"}, fmt.Sprintf("WriteSpec(%q) failed (%v: a directory has that name) and still changed the tree: added %v removed %v changed %v", wname, werr, a, rm, ch), wit)
		}
		// removing by that name is not a licence to remove a directory and what is in it
		// (asked only while the directory holds something: an empty directory under the name
		// is removed like a file would be, which the statement does not rule out)
		var rerr error
		if dirNotEmpty {
			rerr = cache.RemoveSpec(wname)
			c.Count("removals_by_a_name_that_is_a_non_empty_directory", 1)
		}
		if a, rm, ch := snapDiff(before, treeSnapshot(root)); len(a)+len(rm)+len(ch) > 0 {
			cs.Violation("remove-touches-other", map[string]string{"failed_write": "true"}, fmt.Sprintf("RemoveSpec(%q) (err=%v) while a directory has that name changed the tree: added %v removed %v changed %v", wname, rerr, a, rm, ch), wit)
			return
		}
		// and once more: failures do not add up
		werr2 := cache.WriteSpec(cloneSpec(spec), wname)
		if a, rm, ch := snapDiff(before, treeSnapshot(root)); werr2 != nil && len(a)+len(rm)+len(ch) > 0 {
			cs.Violation("write-touches-other", map[string]string{"failed_write": "true"}, fmt.Sprintf("a second failing WriteSpec(%q) changed the tree: added %v removed %v changed %v", wname, a, rm, ch), wit)
		}
		return
	}
	if werr != nil {
		cs.Violation("write-failed", nil, fmt.Sprintf("WriteSpec(%q) fails: %v", wname, werr), wit)
		return
	}
	c.Count("writes", 1)
	after := treeSnapshot(root)
	added, removed, changed := snapDiff(before, after)
	// allowed: the expected file (added or changed), and missing ancestors of it
	okAdded := map[string]bool{expected: true}
	for d := filepath.Dir(expected); strings.HasPrefix(d, sandbox) && d != sandbox; d = filepath.Dir(d) {
		if _, existed := before[d]; !existed {
			okAdded[d] = true
		}
	}
	wit["tree_added"], wit["tree_removed"], wit["tree_changed"] = added, removed, changed
	for _, p := range added {
		if !okAdded[p] {
			cs.Violation("write-touches-other", map[string]string{"auto": fmt.Sprint(auto)}, fmt.Sprintf("WriteSpec(%q) created %s; expected only %s", wname, p, expected), wit)
			return
		}
	}
	for _, p := range changed {
		if p != expected && !okAdded[filepath.Dir(p)] && p != filepath.Dir(expected) {
			cs.Violation("write-touches-other", map[string]string{"auto": fmt.Sprint(auto)}, fmt.Sprintf("WriteSpec(%q) changed %s; expected only %s", wname, p, expected), wit)
			return
		}
	}
	if len(removed) > 0 {
		cs.Violation("write-touches-other", map[string]string{"auto": fmt.Sprint(auto)}, fmt.Sprintf("WriteSpec(%q) removed %v", wname, removed), wit)
		return
	}
	if !strings.HasPrefix(after[expected], "file ") {
		cs.Violation("write-wrong-place", map[string]string{"auto": fmt.Sprint(auto)}, fmt.Sprintf("WriteSpec(%q): no regular file at %s afterwards (added: %v)", wname, expected, added), wit)
		return
	}
	// encoding by extension
	data, _ := os.ReadFile(expected)
	if len(refBytes) > 0 && !bytes.Equal(data, refBytes) {
		cs.Violation("write-wrong-content", map[string]string{"auto": fmt.Sprint(auto)}, fmt.Sprintf("after WriteSpec(%q) the file %s (%d bytes) is not what a cache of its own writes for this Spec and name (%d bytes): whatever was there before must be replaced as a whole", wname, expected, len(data), len(refBytes)), wit)
		return
	}
	trim := strings.TrimSpace(string(data))
	var tmp map[string]any
	isJSON := strings.HasPrefix(trim, "{")
	if enc == "json" && !isJSON {
		cs.Violation("encoding", nil, fmt.Sprintf("%s does not hold JSON", expected), wit)
		return
	}
	if enc == "yaml" && (isJSON || yaml.Unmarshal(data, &tmp) != nil) {
		cs.Violation("encoding", nil, fmt.Sprintf("%s does not hold block YAML", expected), wit)
		return
	}
	// after a refresh the devices resolve to that file with the top priority.
	// In auto-refresh mode Refresh() only rescans when the watcher has seen a
	// change, which happens asynchronously: wait (logically) for the watcher
	// to have drained its events first.
	if ac != nil && !ac.Quiesce() {
		c.Inconclusive("quiesce-timeout")
		return
	}
	cache.Refresh()
	for _, d := range spec.Devices {
		q := spec.Kind + "=" + d.Name
		got := cache.GetDevice(q)
		if got == nil {
			cs.Violation("not-resolving", map[string]string{"auto": fmt.Sprint(auto)}, fmt.Sprintf("after WriteSpec+Refresh %s does not resolve (errors: %v)", q, cache.GetErrors()), wit)
			return
		}
		if got.GetSpec().GetPath() != expected || got.GetSpec().GetPriority() != len(dirs)-1 || normJSON(got.Device) != normJSON(d) {
			cs.Violation("not-resolving", map[string]string{"auto": fmt.Sprint(auto)}, fmt.Sprintf("after WriteSpec+Refresh %s resolves to %s (priority %d), expected %s (priority %d) with the written definition", q, got.GetSpec().GetPath(), got.GetSpec().GetPriority(), expected, len(dirs)-1), wit)
			return
		}
	}
	// remove is symmetric
	mid := treeSnapshot(root)
	var rerr error
	if pv, st := guard(func() { rerr = cache.RemoveSpec(wname) }); pv != nil {
		cs.Violation("panic", nil, fmt.Sprintf("RemoveSpec panics: %v", pv), map[string]any{"w": wit, "stack": st})
		return
	}
	end := treeSnapshot(root)
	a2, r2, c2 := snapDiff(mid, end)
	okRemove := len(a2) == 0 && len(r2) == 1 && r2[0] == expected
	for _, p := range c2 {
		if p != filepath.Dir(expected) {
			okRemove = false
		}
	}
	if rerr != nil || !okRemove {
		cs.Violation("remove-asymmetric", map[string]string{"auto": fmt.Sprint(auto)}, fmt.Sprintf("RemoveSpec(%q) err=%v removed %v added %v changed %v; expected exactly %s to be removed", wname, rerr, r2, a2, c2, expected), wit)
		return
	}
	if err := cache.RemoveSpec(wname); err != nil {
		cs.Violation("remove-missing-fails", nil, fmt.Sprintf("RemoveSpec(%q) of a name that does not exist fails: %v", wname, err), wit)
		return
	}
	never := "never-written-" + wname
	if len(never) > 245 {
		never = "nw-" + wname[14:] // stay within the file system's name limit (ENAMETOOLONG is not the library's doing)
	}
	if err := cache.RemoveSpec(never); err != nil {
		cs.Violation("remove-missing-fails", nil, fmt.Sprintf("RemoveSpec of a name that never existed fails: %v", err), wit)
		return
	}
	c.Count("write_remove_cycles", 1)
	c.Sample(4, map[string]any{"generator": gen, "transient_id": id, "name": name, "written_as": wname, "expected_path": strings.TrimPrefix(expected, root), "dirs": len(dirs), "last_dir": lastShape, "auto": auto})
}

var _ = specs.Spec{}
