package main

// M-GRAMMAR: hand-written byte-level recognisers, written from the property
// statements (C07, C15, C05), never calling the library.

import "strings"

func mLetter(b byte) bool { return b >= 'a' && b <= 'z' || b >= 'A' && b <= 'Z' }
func mDigit(b byte) bool  { return b >= '0' && b <= '9' }
func mAlnum(b byte) bool  { return mLetter(b) || mDigit(b) }

// vendor, class := letter ( [A-Za-z0-9_.-]* alnum )?
func mVendorClass(s string) bool {
	if len(s) == 0 || !mLetter(s[0]) {
		return false
	}
	if len(s) == 1 {
		return true
	}
	for i := 1; i < len(s)-1; i++ {
		if b := s[i]; !(mAlnum(b) || b == '_' || b == '-' || b == '.') {
			return false
		}
	}
	return mAlnum(s[len(s)-1])
}

// name := alnum ( [A-Za-z0-9_.:-]* alnum )?
func mDevName(s string) bool {
	if len(s) == 0 || !mAlnum(s[0]) {
		return false
	}
	if len(s) == 1 {
		return true
	}
	for i := 1; i < len(s)-1; i++ {
		if b := s[i]; !(mAlnum(b) || b == '_' || b == '-' || b == '.' || b == ':') {
			return false
		}
	}
	return mAlnum(s[len(s)-1])
}

// qualified := vendor "/" class "=" name
func mQualified(s string) (v, c, n string, ok bool) {
	i := strings.IndexByte(s, '/')
	if i < 0 {
		return "", "", "", false
	}
	v = s[:i]
	rest := s[i+1:]
	j := strings.IndexByte(rest, '=')
	if j < 0 {
		return "", "", "", false
	}
	c, n = rest[:j], rest[j+1:]
	if !mVendorClass(v) || !mVendorClass(c) || !mDevName(n) {
		return "", "", "", false
	}
	return v, c, n, true
}

// Kubernetes qualified name (annotation key): [prefix "/"] name, prefix a
// DNS-1123 subdomain of at most 253 bytes, name 1..63 bytes
// [A-Za-z0-9]([-_.A-Za-z0-9]*[A-Za-z0-9])?.
func mK8sNamePart(s string) bool {
	if len(s) == 0 || len(s) > 63 {
		return false
	}
	if !mAlnum(s[0]) || !mAlnum(s[len(s)-1]) {
		return false
	}
	for i := 0; i < len(s); i++ {
		if b := s[i]; !(mAlnum(b) || b == '-' || b == '_' || b == '.') {
			return false
		}
	}
	return true
}

func mDNS1123Subdomain(s string) bool {
	if len(s) == 0 || len(s) > 253 {
		return false
	}
	for _, label := range strings.Split(s, ".") {
		if len(label) == 0 {
			return false
		}
		for i := 0; i < len(label); i++ {
			b := label[i]
			lowerAlnum := b >= 'a' && b <= 'z' || mDigit(b)
			if i == 0 || i == len(label)-1 {
				if !lowerAlnum {
					return false
				}
			} else if !(lowerAlnum || b == '-') {
				return false
			}
		}
	}
	return true
}

func mK8sQualifiedName(s string) bool {
	parts := strings.Split(s, "/")
	switch len(parts) {
	case 1:
		return mK8sNamePart(parts[0])
	case 2:
		return mDNS1123Subdomain(parts[0]) && mK8sNamePart(parts[1])
	}
	return false
}

// CDI Spec annotation keys are compared case-insensitively (ASCII).
func mSpecAnnotationKey(s string) bool {
	b := []byte(s)
	for i, ch := range b {
		if ch >= 'A' && ch <= 'Z' {
			b[i] = ch + 32
		}
	}
	return mK8sQualifiedName(string(b))
}
