#!/bin/bash
# Run checks against a scratch copy of the repository with one patch applied.
#   sensitivity/run-patch.sh <patch.diff> <tier> <Cxx> [<Cxx> ...]
# The copy (a git worktree of /repo's HEAD under $TMPDIR) and its build output are
# removed afterwards. Evidence and replay files of these runs go to a scratch
# directory, never to /verif/evidence. Prints one line per check: DETECTED / MISSED.
set -u
PATCH="$(readlink -f "$1")"; TIER="$2"; shift 2
VERIF="$(cd "$(dirname "$0")/.." && pwd)"
NAME="$(basename "$(dirname "$PATCH")")-$$"
WT="${TMPDIR:-/tmp}/verif-mut-$NAME"
OUT="${TMPDIR:-/tmp}/verif-mut-out-$NAME"
git -C "${VERIF_REPO:-/repo}" worktree add -q --detach "$WT" HEAD || exit 2
MT="$OUT.tmp"   # what a changed library leaves in the temporary directory goes away with the run
mkdir -p "$MT"
trap 'git -C "${VERIF_REPO:-/repo}" worktree remove --force "$WT" 2>/dev/null; rm -rf "$OUT" "$MT" "$VERIF/.build-mut-$NAME"' EXIT
if ! git -C "$WT" apply "$PATCH"; then echo "PATCH-DOES-NOT-APPLY $PATCH"; exit 2; fi
rc=0
for id in "$@"; do
	TMPDIR="$MT" VERIF_REPO="$WT" VERIF_BUILD="$VERIF/.build-mut-$NAME" VERIF_OUT="$OUT" "$VERIF/check" "$id" "$TIER" >"$OUT.$id.log" 2>&1
	st=$?
	if [ $st -eq 1 ] && grep -q "^VIOLATION property=$id" "$OUT.$id.log"; then
		echo "DETECTED $id $(basename "$(dirname "$PATCH")") ($(grep -c '^VIOLATION' "$OUT.$id.log") violation lines; first: $(grep -A1 '^VIOLATION' "$OUT.$id.log" | sed -n 2p | cut -c1-200))"
	else
		echo "MISSED $id $(basename "$(dirname "$PATCH")") (exit $st; $(tail -1 "$OUT.$id.log" | cut -c1-200))"
		rc=1
	fi
	rm -f "$OUT.$id.log"
done
exit $rc
