#!/bin/bash
# Regression of the sensitivity evidence: every kept seeded change (seeded/*/patch.diff) and
# every own mutant (sensitivity/*/patch.diff) against the check of the property it breaks.
#   sensitivity/run-all.sh [tier=quick] [parallel=4] > results
# One DETECTED/MISSED line per patch. Known non-detections (see DESIGN.md 8.4): C20-a
# (neutralised by fix 79d279f), C17-uint8 / C17-brokenref (change the shipped schema itself).
TIER="${1:-quick}"; PAR="${2:-4}"
cd "$(dirname "$0")/.."
list() {
	for d in seeded/C*-?; do [ -f "$d/patch.diff" ] && echo "$d/patch.diff $(basename "$d" | cut -c1-3)"; done
	for d in sensitivity/*/; do
		d=${d%/}; [ -f "$d/patch.diff" ] || continue
		id=$(basename "$d" | grep -o 'C[0-9][0-9]' | head -1)
		echo "$d/patch.diff $id"
	done
}
list | xargs -P "$PAR" -L 1 bash -c 'timeout 3000 sensitivity/run-patch.sh "$0" '"$TIER"' "$1" 2>&1 | tail -1 | cut -c1-260'
