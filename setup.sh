#!/bin/bash
# MANIFEST.setup_cmd: build the harness binaries from files on disk only.
set -e
cd "$(dirname "$0")"
./check build
