#!/usr/bin/env python3
"""Second, unrelated reference for M-SCHEMA: validates recorded documents with the
python jsonschema package (draft-07) against the shipped schema files and compares
with the verdicts the harness's own evaluator gave.
usage: xref_schema.py <schema dir> <records.jsonl>   (records: {"doc": <json text>, "valid": bool})
prints: CHECKED n DISAGREE m, plus the first disagreements."""
import json, sys, os
import jsonschema
from jsonschema import Draft7Validator, RefResolver

schema_dir, records = sys.argv[1], sys.argv[2]
store = {}
for name in os.listdir(schema_dir):
    if name.endswith(".json"):
        store["file://" + os.path.join(os.path.abspath(schema_dir), name)] = json.load(open(os.path.join(schema_dir, name)))
root_uri = "file://" + os.path.join(os.path.abspath(schema_dir), "schema.json")
root = store[root_uri]
resolver = RefResolver(base_uri=root_uri, referrer=root, store=store)
validator = Draft7Validator(root, resolver=resolver)
n = bad = 0
for line in open(records):
    rec = json.loads(line)
    doc = json.loads(rec["doc"])
    ok = validator.is_valid(doc)
    n += 1
    if ok != rec["valid"]:
        bad += 1
        if bad <= 5:
            print("DISAGREEMENT: model says valid=%s, jsonschema says %s: %s" % (rec["valid"], ok, rec["doc"][:500]))
print("CHECKED %d DISAGREE %d" % (n, bad))
