#!/usr/bin/env python3
"""Regenerates /verif/MANIFEST.json from the table below (run from /verif)."""
import json, os, subprocess

props = [json.loads(l)["id"] for l in open("properties.jsonl")]

# id: (level, technique, text, note, design_ref)
C = {
 "C01": ("exploration", "reference-model monitor (M-RESOLVE) over seeded directory populations and histories; watcher quiescence via hook",
   "Runs the real cache over thousands of generated Spec-directory populations (missing/repeated/non-clean directories, valid/invalid/non-Spec/nested files, colliding definitions) and change histories in manual and auto-refresh mode; after every refresh every query result is compared with an independently written resolution model. Sampled, bounded populations: held on what was generated, not a proof.",
   "trusted: M-RESOLVE in harness/cmd/vcheck/gen_dirs.go transcribes the statement; kernel inotify ordering for the auto-mode quiescence", "3 C01"),
 "C02": ("exploration", "reference-model monitor: harness-built combined edit list + marker scan over repeated injections into one cache",
   "Generated caches with shadowing/conflicts and rich edits; ordered selections injected repeatedly into the same cache; result compared with applying the combined list built from the generator's own data, plus attribution markers proving no foreign edit appears.",
   "trusted: ContainerEdits.Apply as the composition reference (checked by C03), M-RESOLVE", "3 C02"),
 "C03": ("exploration", "reference-model monitor (M-APPLY), clause by clause, with real host device nodes (mknod)",
   "Seeded OCI specs x valid edit lists with forced interactions applied through Apply/Device.ApplyEdits/Spec.ApplyEdits; env, device, cgroup, mount, hook, GID, RDT and 'nothing else changes' clauses each compared with an independent model.",
   "trusted: M-APPLY in c03.go; env clause = last entry wins; positions of replaced elements unconstrained", "3 C03"),
 "C04": ("exploration", "reference-model monitor + before/after deep comparison of the OCI spec",
   "Generated caches x request lists mixing resolvable, unknown, invalid, conflict-removed and repeated names; checks the exact miss list, the error, and byte-identical OCI spec; nil spec case.",
   "trusted: M-RESOLVE", "3 C04"),
 "C05": ("exploration", "by-construction oracle: well-formed documents vs single-defect variants at every position, 4 entry points, 2 encodings",
   "Every defect kind of the statement at spec/first/middle/last device and first/last list element, in JSON and YAML, through ReadSpec, ParseSpec, Cache.Refresh+GetErrors and Cache.WriteSpec; well-formed Specs (incl. boundary-valid) must be accepted by all.",
   "trusted: the defect catalogue in c05.go follows the rule list of the statement; harness emitters (doc.go) produce what they claim", "3 C05"),
 "C06": ("exploration", "bounded-exhaustive enumeration against M-VERSION",
   "All 128 feature subsets x all placements x all device permutations (n<=3 quick, <=4 thorough) x 25 declared version strings; ReadSpec on a file sample in both encodings.",
   "trusted: M-VERSION (gen_spec.go) transcribes the feature table; v-prefixed declared versions are unspecified and only counted", "3 C06"),
 "C07": ("exploration", "bounded-exhaustive enumeration against a hand-written byte-level grammar recogniser",
   "Every string of length <=5 (quick) / <=6 (thorough) over a 13-symbol alphabet incl. non-ASCII and NUL, every byte at every position of skeleton names, seeded longer names; acceptance, parts, recomposition, failure contract, per-part validators, compose/parse round trip.",
   "trusted: model_grammar.go", "3 C07"),
 "C14": ("exploration", "invariant monitor: before/after JSON images of the cache through the query API across injection sequences with host-node changes",
   "Sequences of InjectDevices/Device.ApplyEdits/Spec.ApplyEdits, each run twice, with mknod-replaced host nodes in between; cache image unchanged, results repeatable and equal to pristine edits applied now, cached Specs still writable and byte-identical.",
   "trusted: the image covers what the query API exposes; Apply on pristine generator data as reference", "3 C14"),
 "C15": ("exploration", "reference-model monitor (Kubernetes qualified-name recogniser) over seeded plugin/id/map/device tuples",
   "Key names of every length 1..66 with every character class at first/middle/last position, initial maps incl. colliding keys with empty value, device lists with one bad element at each position; failure leaves the map intact, success adds exactly one legal key that parses back.",
   "trusted: model_grammar.go; empty device lists are outside the quantifier", "3 C15"),
}

checks = []
for pid in props:
    if pid not in C: continue
    level, tech, text, note, ref = C[pid]
    checks.append({
        "property_id": pid,
        "quick_cmd": f"./check {pid} quick",
        "thorough_cmd": f"./check {pid} thorough",
        "evidence_file": f"/verif/evidence/{pid}.json",
        "replay_cmd_template": f"./check {pid} --replay {{path}}",
        "engine": "vcheck",
        "level_claimed": {"category": level, "text": text, "design_ref": "DESIGN.md section " + ref},
        "level_note": note,
        "technique": tech,
    })

hooks_commit = subprocess.run(["git","-C","/repo","log","--format=%h","--grep=^verif:"],capture_output=True,text=True).stdout.split()
m = {
 "version": 1,
 "setup_cmd": "./setup.sh",
 "hooks": {"guard": "verif",
   "enable": "go build -tags verif (./check always builds the harness and /repo's packages with -tags verif)",
   "baseline_off_cmd": "for m in . ./cmd/cdi ./cmd/validate ./schema ./specs-go; do (cd /repo/$m && GOFLAGS=-mod=mod GOPROXY=off GOSUMDB=off GOTOOLCHAIN=local go test -json -vet=off -count=1 -timeout 25m ./...); done",
   "source_commits": hooks_commit, "add_only": True},
 "engines": [{"name": "vcheck", "path": "harness/cmd/vcheck", "serves_properties": sorted(C), "kind_free_text": "Go harness built against /repo with -tags verif: seeded workload generators, reference-model monitors, event/trace monitors over the verif hook points and raw inotify, fault injection (strace, rlimits), race detector, porcupine history checking"}],
 "checks": checks,
 "notes": "Runtime monitoring and sanitizers only; see DESIGN.md. Known findings are listed in known-findings.json.",
 "not_applicable": [{"property_id": p, "reason": "check not built yet (work in progress; planned in DESIGN.md section 3)"} for p in props if p not in C],
}
json.dump(m, open("MANIFEST.json","w"), indent=1)
print(len(checks), "checks,", len(m["not_applicable"]), "not claimed")
