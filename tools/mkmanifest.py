#!/usr/bin/env python3
"""Regenerates /verif/MANIFEST.json from the table below (run from /verif)."""
import json, os, subprocess

props = [json.loads(l)["id"] for l in open("properties.jsonl")]

# id: (level, technique, text, note, design_ref)
C = {
 "C01": ("exploration", "reference-model monitor (M-RESOLVE) over seeded directory populations and histories; watcher quiescence via hook",
   "Runs the real cache over thousands of generated Spec-directory populations (missing/repeated/non-clean directories, valid/invalid/non-Spec/nested files, colliding definitions) and change histories in manual and auto-refresh mode; after every refresh every query result is compared with an independently written resolution model. Sampled, bounded populations: held on what was generated, not a proof. Histories also reconfigure the same cache with permuted, shortened and repeated directory lists; non-regular entries (FIFO, links to directories) are part of the populations. The directory itself is renamed away as a history step; the caller reuses the directory slice it passed.",
   "trusted: M-RESOLVE in harness/cmd/vcheck/gen_dirs.go transcribes the statement; kernel inotify ordering for the auto-mode quiescence", "3 C01"),
 "C02": ("exploration", "reference-model monitor: harness-built combined edit list + marker scan over repeated injections into one cache",
   "Generated caches with shadowing/conflicts and rich edits; ordered selections injected repeatedly into the same cache; result compared with applying the combined list built from the generator's own data, plus attribution markers proving no foreign edit appears. Refused requests (resolvable devices mixed with an unknown one, nil OCI spec) and queries go in between; one population in eight is replayed through a watcher-less auto-refresh cache in a child process. Phases 'late' (the highest-priority directory appears populated since the last query) and 'reorder' (the list of a live auto cache is permuted), each followed by the injection as the next query.",
   "trusted: ContainerEdits.Apply as the composition reference (checked by C03), M-RESOLVE", "3 C02"),
 "C03": ("exploration", "reference-model monitor (M-APPLY), clause by clause, with real host device nodes (mknod)",
   "Seeded OCI specs x valid edit lists with forced interactions applied through Apply/Device.ApplyEdits/Spec.ApplyEdits; env, device, cgroup, mount, hook, GID, RDT and 'nothing else changes' clauses each compared with an independent model. Optional numbers (cgroup-rule minor, uid/gid, hook timeout) are compared exactly: absent differs from 0. Names of variables, device paths and mount destinations that are prefixes, extensions and case variants of each other; device cgroup rules with absent major/minor already in the OCI spec; host paths that are links, directories, dangling.",
   "trusted: M-APPLY in c03.go; env clause = last entry wins; positions of replaced elements unconstrained", "3 C03"),
 "C04": ("exploration", "reference-model monitor + before/after deep comparison of the OCI spec",
   "Generated caches x request lists mixing resolvable, unknown, invalid, conflict-removed and repeated names; checks the exact miss list, the error, and byte-identical OCI spec; nil spec case. Requests have up to 300 names; a flip phase requests two devices that never exist at the same time while the file flips.",
   "trusted: M-RESOLVE", "3 C04"),
 "C05": ("exploration", "by-construction oracle: well-formed documents vs single-defect variants at every position, 4 entry points, 2 encodings",
   "Every defect kind of the statement at spec/first/middle/last device and first/last list element, in JSON and YAML, through ReadSpec, ParseSpec, Cache.Refresh+GetErrors and Cache.WriteSpec; well-formed Specs (incl. boundary-valid) must be accepted by all. Near-miss enum values, byte-size annotation limits (multi-byte characters, one byte over, exactly at the limit), case variants of field names (known finding) and history-dependent acceptance are included. A second pass with an accepting external Spec validator installed; documents of more than 1 and 4 MiB (thorough: up to 33 MiB) whose single defect sits in the last device; non-ASCII letters and digits inside names.",
   "trusted: the defect catalogue in c05.go follows the rule list of the statement; harness emitters (doc.go) produce what they claim", "3 C05"),
 "C06": ("exploration", "bounded-exhaustive enumeration against M-VERSION",
   "All 128 feature subsets x all placements x all device permutations (n<=3 quick, <=4 thorough) x 25 declared version strings; ReadSpec on a file sample in both encodings. Every feature comes in several realisations (gid lists of zeros only, other mount types and host paths, name/class spellings, RDT members); one long-lived Spec object is queried with replaced content. A second pass with an accepting external validator installed; every realisation of every placed feature and all ten leading digits at every leaf.",
   "trusted: M-VERSION (gen_spec.go) transcribes the feature table; v-prefixed declared versions are unspecified and only counted", "3 C06"),
 "C07": ("exploration", "bounded-exhaustive enumeration against a hand-written byte-level grammar recogniser",
   "Every string of length <=5 (quick) / <=6 (thorough) over a 13-symbol alphabet incl. non-ASCII and NUL, every byte at every position of skeleton names, seeded longer names; acceptance, parts, recomposition, failure contract, per-part validators, compose/parse round trip. Every Unicode code point at the first, a middle and the last position of each part (thorough: all nine positions for all code points). Names of up to 70000 bytes.",
   "trusted: model_grammar.go", "3 C07"),
 "C08": ("exploration", "sanitizer-style crash/hang monitor: hostile inputs through every listed entry point with recover(), per-call thread CPU time, and a child process whose watcher goroutine must survive dropped files",
   "Structure-aware, YAML-feature, byte-level and random hostile file contents through ParseSpec/ReadSpec/Refresh/schema validation, injection of every loadable mutant into generated OCI specs, G-STR strings through the annotation and parser helpers; a child with an auto-refresh cache gets hostile files renamed into its directory and must afterwards still notice a good file. Unknown and hostile device names are requested from the very cache that holds the error entry of the hostile file; a call that never returns is reported as a hang. Hostile keys shaped like qualified names (empty DNS labels); external validators that refuse, accept and are replaced, with a 60 s hang oracle.",
   "trusted: only recoverable panics, process death and CPU time are observable; inputs <= 256 KiB", "3 C08"),
 "C10": ("fault_enumeration", "crash-point enumeration with strace SIGKILL injection at every file-system syscall of the writer, write-failure offsets via RLIMIT_FSIZE, ENOSPC tmpfs, errno injection, raw inotify trace, hook-point reader interleaving",
   "For {previous file, none} x {json, yaml} x {small, 64 KiB}: the writer child is killed on entry to each syscall of the sequence observed in a dry run; writes fail at every/sampled byte offset, on a full tmpfs, at rename, and with injected errnos; a raw inotify watch and sampling readers observe thousands of concurrent overwrites; a full reader observation runs at each write.* hook point. Oracle: every Spec-named entry is byte-equal to the complete old or new content and nothing left behind is loadable. Spec names contain pattern, format and shell characters; a library reader runs during overwrites with contents of different size. After every failed write the same cache writes another Spec, compared byte for byte with what a fresh cache writes.",
   "trusted: strace kills before the syscall takes effect; rename(2) atomicity; process death only (no power loss)", "3 C10"),
 "C11": ("exploration", "convergence monitor: seeded file-system histories with adversarial pacing (watcher held, changes made from inside a directory scan), logical quiescence via sentinel + watch.event hook, comparison with a fresh cache",
   "Histories of 1-12 operations of 16 kinds over 1-3 directories, observed through queries only; after the watcher drained, within two rounds of queries the devices, definitions and files in error must equal those of a freshly built cache. 'Soon' is restated as bounded progress. Changes are also injected from inside the constructor's first scan and between scan and return; back-to-back remove+recreate and truncate operations are among the kinds. Phase 'appears' (a higher-priority directory appears populated; observation by InjectDevices alone), phase 'swap' (the directory is replaced at the moment its watch is set up, hook watch.beforeAdd), Spec-named symbolic links, directories renamed away, non-clean spellings.",
   "trusted: inotify FIFO ordering per instance; the fresh cache as reference (its correctness is C01's job)", "3 C11"),
 "C12": ("exploration", "Go race detector over a stress of all public operations + snapshot histories checked for mixture, monotonicity and linearizability (porcupine)",
   "Race build: 8-24 goroutines x all public cache operations in manual and auto mode with an external mutator, reports de-duplicated by outermost pkg/cdi frame pair, progress monitor; thousands of short histories with an atomic version switcher checked for no-mixture, per-goroutine monotonicity and linearizability against a 3-line (fs, cache) model. The stress includes a missing and a flickering directory, moments with an empty directory list, and concurrent first use of the default cache in race-built child processes; no progress for 30 s is a deadlock verdict. Snapshot histories on auto-refresh caches without watcher; the caller reuses the directory slice while the cache is in use.",
   "trusted: the race detector only sees executed races; stamps at the client boundary; porcupine v1.3.0", "3 C12"),
 "C20": ("fault_enumeration", "child-process histories of Configure calls with exact accounting from /proc (descriptors, inotify watches by inode, watcher goroutines), descriptor exhaustion at every step index, held-watcher catalogue case; compared with a fresh cache",
   "1-40 reconfigurations (private and default cache) with directory changes and descriptor exhaustion (strict / table full) during step k or from step k on, k<=8: final state equals a fresh cache with the final options, watches exactly on the existing final directories (or none in manual mode), later changes converge (or wait for Refresh), resources <= baseline + one watcher. Writes armed to fire during a Configure (between scan and watch set-up), watcher held across a Configure, stale inotify watches detected by inode; histories that met a machine-wide inotify shortage are repeated, never judged. Catalogue cases: a cache set up during a shortage on empty and missing directories; a configured path below a regular file.",
   "trusted: /proc/self/fd and fdinfo; one watcher = 4 descriptors + 2 goroutines; nothing asserted during the shortage itself", "3 C20"),

 "C09": ("exploration", "round-trip monitor: WriteSpec then ReadSpec / Refresh+GetDevice over G-STR strings in every free-text field and numeric extremes, both encodings",
   "One free-text field at a time takes hostile valid-UTF-8 strings (YAML-sensitive spellings, line breaks in every position, controls, NEL/LS/PS, BOM, non-characters, non-BMP) and integer fields take their extremes; the files written as x.json, x.yaml and x must read back equal and load to the same devices. The YAML block-scalar mismatch between yaml.v3 and yaml.v2 is a recorded known finding. In-memory shapes with allocated-but-empty lists/maps are judged whenever the writer accepts them; stale temporary files of interrupted writers lie next to the target; comparison distinguishes absent from 0. Every catalogue string in every field whatever the seed; Specs whose files exceed 1 and 4 MiB.",
   "trusted: normalised JSON comparison identifies nil and empty containers", "3 C09"),
 "C13": ("fault_enumeration", "fault enumeration over directory positions and files, scan.beforeRead hook for vanish/replace between listing and reading, uid-65534 child for permission faults; compared with M-RESOLVE",
   "Every fault kind (10 file kinds, 5 directory kinds) at every configured-directory position and at up to 4 Spec files of good populations, alone or in pairs, manual and auto mode, followed by a repair and another refresh: the other devices resolve exactly, failing files are reported, Refresh() errs iff it must, entries disappear after the repair. Repairs happen by rewriting, renaming to a non-Spec name, moving out or removing; overlapping explicit refreshes around a repair are checked against the last-started scan. Directory faults that are not ENOENT also in auto-refresh mode.",
   "trusted: M-RESOLVE; a directory that cannot be scanned contributes nothing; unconstrained cases listed in DESIGN.md", "3 C13"),
 "C16": ("exploration", "trace monitor over directory-tree snapshots (path, type, mode, size, SHA-256) before/after WriteSpec and RemoveSpec, manual and auto-refresh caches",
   "Names from all four generators with hostile transient ids must be single path components; the snapshot diff after WriteSpec is exactly the expected file (+ created directories) in the last configured directory, encoding by extension, devices resolve to it with top priority after a refresh, RemoveSpec removes exactly that file and is idempotent. Names with extensions in other letter case, the last directory also listed earlier under other spellings, RemoveSpec while the last directory is missing. The file after WriteSpec is byte-equal to what a cache of its own writes; leftovers that begin with the new content; the cache is reconfigured before the write; names of 236-255 bytes.",
   "trusted: SHA-256 snapshots of the sandbox tree; ids without NUL", "3 C16"),
 "C17": ("exploration", "reference-model monitor: harness-written draft-07 evaluator over the shipped schema files vs every entry point x encoding x schema configuration",
   "Valid Specs and 1-3 structural mutations (removed members, wrong types, bound-adjacent numbers, extra members, nulls, ill-formed annotation keys, unusual JSON spellings) through ValidateData/ValidateFile/ValidateReader/ReadAndValidate/ValidateType/Validate with builtin, external copy, none and nil schemas; verdict equality with the model, encoding independence, none/nil never reject, no-op canary. Large per-object annotation sets with keys of their own, in-memory Spec shapes, concurrent first use in child processes; the thorough tier cross-checks the model against python-jsonschema. Readers that deliver one byte per call, half, or the last bytes together with io.EOF.",
   "trusted: model_schema.go implements draft-07; harness emitters; YAML numbers canonical", "3 C17"),
 "C18": ("exploration", "implication monitor: library-valid Specs (decided by the library) must pass the builtin schema as object and as written files; global validator in child processes",
   "G-SPEC Specs, boundary-valid Specs, numeric extremes (timeouts 0..2^32-1), G-STR strings and annotation keys of every shape; Validate(spec), ValidateFile/ValidateData of the written .json/.yaml, and WriteSpec+ReadSpec with SetSpecValidator(BuiltinSchema()) installed in dedicated children. Annotation sets near the limit at spec and device level with distinct keys, documents whose written files exceed 1 MiB, concurrent validations. Hand-written Spec files (unquoted scalars, explicit nulls) loaded with the validator installed; nil list entries in in-memory Specs; 16 concurrent validations.",
   "trusted: the library's own acceptance defines the antecedent", "3 C18"),
 "C19": ("exploration", "differential monitor: the built cdi and validate binaries as child processes vs an in-process cache with the same options and validator; outputs parsed, not string-compared",
   "Seeded populations (with/without files in error, missing directories) via --spec-dirs/-d in three flag forms; devices/vendors/classes/specs/dirs/validate/inject subcommands and formats; validate binary on mutated documents with builtin/none/external schema via file and stdin; listings, error-report file sets, exit statuses and injected OCI trees compared. Directory lists with repetitions and non-clean spellings; tool runs that got no inotify instance from the machine are repeated, never judged. A Spec only the schema refuses in the population; a directory listed around another one; several documents per validate invocation.",
   "trusted: regexp extraction of names/paths from the tool's output; inject reference uses sorted matches", "3 C19"),

 "C14": ("exploration", "invariant monitor: before/after JSON images of the cache through the query API across injection sequences with host-node changes",
   "Sequences of InjectDevices/Device.ApplyEdits/Spec.ApplyEdits, each run twice, with mknod-replaced host nodes in between; cache image unchanged, results repeatable and equal to pristine edits applied now, cached Specs still writable and byte-identical. Expectations come from the harness's own lstat model of the host nodes; comparison distinguishes absent from 0. A Spec file appears behind a manual cache and a request is refused: still no refresh; file modes with type bits; mount paths not in their shortest spelling.",
   "trusted: the image covers what the query API exposes; Apply on pristine generator data as reference", "3 C14"),
 "C15": ("exploration", "reference-model monitor (Kubernetes qualified-name recogniser) over seeded plugin/id/map/device tuples",
   "Key names of every length 1..66 with every character class at first/middle/last position, initial maps incl. colliding keys with empty value, device lists with one bad element at each position; failure leaves the map intact, success adds exactly one legal key that parses back. Every Unicode code point at the first, a middle and the last position of plugin name and device id. CDI keys with further slashes, the bare prefix and near misses of the prefix.",
   "trusted: model_grammar.go; empty device lists are outside the quantifier", "3 C15"),
}

checks = []
for pid in props:
    if pid not in C: continue
    level, tech, text, note, ref = C[pid]
    checks.append({
        "property_id": pid,
        "quick_cmd": f"./check {pid} quick",
        "thorough_cmd": f"./check {pid} thorough",
        "evidence_file": f"/verif/evidence/{pid}.json",
        "replay_cmd_template": f"./check {pid} --replay {{path}}",
        "engine": "vcheck",
        "level_claimed": {"category": level, "text": text, "design_ref": "DESIGN.md section " + ref},
        "level_note": note,
        "technique": tech,
    })

hooks_commit = subprocess.run(["git","-C","/repo","log","--format=%h","--grep=^verif:"],capture_output=True,text=True).stdout.split()
m = {
 "version": 1,
 "setup_cmd": "./setup.sh",
 "hooks": {"guard": "verif",
   "enable": "go build -tags verif (./check always builds the harness and /repo's packages with -tags verif)",
   "baseline_off_cmd": "for m in . ./cmd/cdi ./cmd/validate ./schema ./specs-go; do (cd /repo/$m && GOFLAGS=-mod=mod GOPROXY=off GOSUMDB=off GOTOOLCHAIN=local go test -json -vet=off -count=1 -timeout 25m ./...); done",
   "source_commits": hooks_commit, "add_only": True},
 "engines": [{"name": "vcheck", "path": "harness/cmd/vcheck", "serves_properties": sorted(C), "kind_free_text": "Go harness built against /repo with -tags verif: seeded workload generators, reference-model monitors, event/trace monitors over the verif hook points and raw inotify, fault injection (strace, rlimits), race detector, porcupine history checking"}],
 "checks": checks,
 "notes": "Runtime monitoring and sanitizers only; see DESIGN.md. Known findings are listed in known-findings.json.",
 "not_applicable": [{"property_id": p, "reason": "check not built yet (work in progress; planned in DESIGN.md section 3)"} for p in props if p not in C],
}
json.dump(m, open("MANIFEST.json","w"), indent=1)
print(len(checks), "checks,", len(m["not_applicable"]), "not claimed")
